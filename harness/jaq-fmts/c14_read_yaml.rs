// C14 — a text string the YAML writer emits as a PLAIN scalar is read back as the same string.
// Child module of jaq-fmts/src/read/yaml.rs (sees parse_int, parse_float, parse_sign, parse_radix,
// normalise_float); the writer's must_quote comes from the support module in write/yaml.rs.
//@@ mount: jaq-fmts/src/read/yaml.rs as verif_c14_r
//@@ prop: C14
#![allow(dead_code, unused_imports)]
use super::*;
use alloc::{vec, vec::Vec};

/// Model of `Num::from_str_radix` for inputs that start with a digit (all that `parse_radix` lets
/// through): Some iff non-empty and every byte is a digit of the radix. The real function falls back
/// to num-bigint, which does not decide (design probe: 15 min). The VALUE is not the subject.
fn radix_model(i: &str, radix: u32) -> Option<Num> {
    let b = i.as_bytes();
    if b.is_empty() {
        return None;
    }
    let mut k = 0;
    while k < b.len() {
        let d = match b[k] {
            b'0'..=b'9' => b[k] - b'0',
            b'a'..=b'z' => b[k] - b'a' + 10,
            b'A'..=b'Z' => b[k] - b'A' + 10,
            _ => return None,
        };
        if d as u32 >= radix {
            return None;
        }
        k += 1;
    }
    Some(Num::Int(0))
}
fn no_format(_args: core::fmt::Arguments<'_>) -> String {
    String::new()
}

/// What the reader does with an UNTAGGED plain scalar, in the order of `parse_plain_scalar`:
/// keyword, else integer, else float, else string.
fn reader_says_string(s: &str) -> bool {
    let kw = matches!(
        s,
        "null" | "Null" | "NULL" | "~" | "true" | "True" | "TRUE" | "false" | "False" | "FALSE" | ".nan" | ".NaN" | ".NAN"
    );
    if kw {
        return false;
    }
    let i = parse_int(s);
    let is_int = i.is_some();
    core::mem::forget(i);
    if is_int {
        return false;
    }
    let f = parse_float(s);
    let is_float = f.is_some();
    core::mem::forget(f);
    !is_float
}

fn check(buf: &[u8]) {
    if let Ok(s) = core::str::from_utf8(buf) {
        if !crate::write::yaml::verif_c14_w::must_quote(buf) {
            assert!(reader_says_string(s), "unquoted scalar is not read back as a string");
        }
    }
}

//@ tier: attempt
//@ timeout: 2400
//@ funcs: write::yaml::must_quote, write::yaml::ns_plain_one_line, read::yaml::parse_int, parse_float, parse_sign, parse_radix, normalise_float, strip
//@ bounds: every ASCII string of length 1 (symbolic bytes < 0x80; the length is concrete so that loops over the string fold)
//@ assume: jaq_json::Num::from_str_radix replaced by a digit-validity model (its big-integer fallback does not decide); alloc::fmt::format stubbed (the normalised float TEXT is not the subject)
//@ asserts: if the writer decides NOT to quote a text string, the reader's scalar resolution (keyword / integer / float / string) yields a string -- so number-, keyword- and sign-prefixed look-alikes such as "+1", ".5", "-.inf" must be quoted
#[kani::proof]
#[kani::unwind(24)]
#[kani::stub(jaq_json::Num::from_str_radix, radix_model)]
#[kani::stub(alloc::fmt::format, no_format)]
fn c14_yaml_plain_scalar_reads_back_as_string_1() {
    let b: [u8; 1] = kani::any();
    let mut k = 0;
    while k < 1 {
        kani::assume(b[k] < 0x80);
        k += 1;
    }
    check(&b);
    kani::cover!(!crate::write::yaml::verif_c14_w::must_quote(&b));
    kani::cover!(crate::write::yaml::verif_c14_w::must_quote(&b));
}

//@ tier: attempt
//@ timeout: 2400
//@ funcs: write::yaml::must_quote, write::yaml::ns_plain_one_line, read::yaml::parse_int, parse_float, parse_sign, parse_radix, normalise_float, strip
//@ bounds: every ASCII string of length 2 (symbolic bytes < 0x80; the length is concrete so that loops over the string fold)
//@ assume: jaq_json::Num::from_str_radix replaced by a digit-validity model (its big-integer fallback does not decide); alloc::fmt::format stubbed (the normalised float TEXT is not the subject)
//@ asserts: if the writer decides NOT to quote a text string, the reader's scalar resolution (keyword / integer / float / string) yields a string -- so number-, keyword- and sign-prefixed look-alikes such as "+1", ".5", "-.inf" must be quoted
#[kani::proof]
#[kani::unwind(24)]
#[kani::stub(jaq_json::Num::from_str_radix, radix_model)]
#[kani::stub(alloc::fmt::format, no_format)]
fn c14_yaml_plain_scalar_reads_back_as_string_2() {
    let b: [u8; 2] = kani::any();
    let mut k = 0;
    while k < 2 {
        kani::assume(b[k] < 0x80);
        k += 1;
    }
    check(&b);
    kani::cover!(!crate::write::yaml::verif_c14_w::must_quote(&b));
    kani::cover!(crate::write::yaml::verif_c14_w::must_quote(&b));
}

//@ tier: attempt
//@ timeout: 2400
//@ funcs: write::yaml::must_quote, write::yaml::ns_plain_one_line, read::yaml::parse_int, parse_float, parse_sign, parse_radix, normalise_float, strip
//@ bounds: every ASCII string of length 3 (symbolic bytes < 0x80; the length is concrete so that loops over the string fold)
//@ assume: jaq_json::Num::from_str_radix replaced by a digit-validity model (its big-integer fallback does not decide); alloc::fmt::format stubbed (the normalised float TEXT is not the subject)
//@ asserts: if the writer decides NOT to quote a text string, the reader's scalar resolution (keyword / integer / float / string) yields a string -- so number-, keyword- and sign-prefixed look-alikes such as "+1", ".5", "-.inf" must be quoted
#[kani::proof]
#[kani::unwind(24)]
#[kani::stub(jaq_json::Num::from_str_radix, radix_model)]
#[kani::stub(alloc::fmt::format, no_format)]
fn c14_yaml_plain_scalar_reads_back_as_string_3() {
    let b: [u8; 3] = kani::any();
    let mut k = 0;
    while k < 3 {
        kani::assume(b[k] < 0x80);
        k += 1;
    }
    check(&b);
    kani::cover!(!crate::write::yaml::verif_c14_w::must_quote(&b));
    kani::cover!(crate::write::yaml::verif_c14_w::must_quote(&b));
}

