// C14 support: the INTERPOLANT through which the YAML plain-scalar property is decided by composition.
// Property P:  a text string the writer leaves unquoted is read back as a string.
//   R (reader side):  the real parse_int / parse_float accept s   =>  m_mid(s)   (keywords: restated)
//   W (writer side):  m_mid(s)                                     =>  must_quote(s)
//   R and W  =>  P.
// `m_mid` is written from the YAML 1.2 core schema, independently of both sides, and deliberately sits
// in the MIDDLE between "what the reader resolves to a non-string" and "what the writer quotes", with
// slack on both sides, so that changes which preserve P do not raise an alarm: the reader may become
// more lenient on strings that start with a digit (`012`, `0x+f`, `1_000`), and the writer may stop
// quoting strings that cannot be numbers (`.`, `.foo`), without either half failing.
//@@ mount: jaq-fmts/src/lib.rs as verif_c14_model
//@@ support
#![allow(dead_code)]

/// null / boolean / NaN spellings of the core schema (plus `~`)
pub(crate) fn is_keyword(b: &[u8]) -> bool {
    matches!(
        b,
        b"null" | b"Null" | b"NULL" | b"~" | b"true" | b"True" | b"TRUE" | b"false" | b"False" | b"FALSE" | b".nan" | b".NaN" | b".NAN"
    )
}
/// optional sign, then a digit, or a dot followed by a digit, or an infinity spelling
pub(crate) fn numeric_like(b: &[u8]) -> bool {
    let r = match b {
        [b'-' | b'+', rest @ ..] => rest,
        _ => b,
    };
    match r {
        [c, ..] if c.is_ascii_digit() => true,
        [b'.', c, ..] if c.is_ascii_digit() => true,
        b".inf" | b".Inf" | b".INF" => true,
        _ => false,
    }
}
pub(crate) fn m_mid(b: &[u8]) -> bool {
    is_keyword(b) || numeric_like(b)
}
