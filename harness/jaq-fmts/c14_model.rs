// C14 support: an INDEPENDENT recogniser, written from the YAML 1.2 core schema as jaq documents its
// reading of it, of the untagged plain scalars that are resolved to something other than a string.
// It is shared by the writer-side and reader-side harnesses so that their conclusions compose:
//   R  (reader side):  the real parse_int / parse_float accept s  <=>  m_is_int(s) / m_is_float(s)
//   W  (writer side):  !must_quote(s)  =>  !m_non_string(s)
//   R and W  =>  a text string written as a plain scalar is read back as a string.
//@@ mount: jaq-fmts/src/lib.rs as verif_c14_model
//@@ support
#![allow(dead_code)]

/// null / boolean / NaN spellings of the core schema (plus `~`)
pub(crate) fn is_keyword(b: &[u8]) -> bool {
    matches!(
        b,
        b"null" | b"Null" | b"NULL" | b"~" | b"true" | b"True" | b"TRUE" | b"false" | b"False" | b"FALSE" | b".nan" | b".NaN" | b".NAN"
    )
}
fn unsigned(b: &[u8]) -> &[u8] {
    match b {
        [b'-' | b'+', rest @ ..] => rest,
        _ => b,
    }
}
fn all(b: &[u8], f: fn(u8) -> bool) -> bool {
    let mut k = 0;
    while k < b.len() {
        if !f(b[k]) {
            return false;
        }
        k += 1;
    }
    true
}
fn dec(c: u8) -> bool {
    c.is_ascii_digit()
}
fn hex(c: u8) -> bool {
    c.is_ascii_hexdigit()
}
fn bin(c: u8) -> bool {
    c == b'0' || c == b'1'
}
fn oct(c: u8) -> bool {
    (b'0'..=b'7').contains(&c)
}
/// integers: [-+]? ( 0 | [1-9][0-9]* | 0x[0-9a-fA-F]+ | 0b[01]+ | 0o[0-7]+ )
pub(crate) fn m_is_int(b: &[u8]) -> bool {
    match unsigned(b) {
        [b'0'] => true,
        [b'0', b'x', r @ ..] => !r.is_empty() && all(r, hex),
        [b'0', b'b', r @ ..] => !r.is_empty() && all(r, bin),
        [b'0', b'o', r @ ..] => !r.is_empty() && all(r, oct),
        [b'1'..=b'9', r @ ..] => all(r, dec),
        _ => false,
    }
}
/// number of leading decimal digits
fn digits(b: &[u8]) -> usize {
    let mut k = 0;
    while k < b.len() && dec(b[k]) {
        k += 1;
    }
    k
}
/// floats: [-+]? ( .inf | .Inf | .INF | I? ( "." F? )? ( [eE] [-+]? E )? ) where I = 0 | [1-9][0-9]*,
/// F and E are digit strings, E non-empty, and I or F non-empty
pub(crate) fn m_is_float(b: &[u8]) -> bool {
    let r = unsigned(b);
    if matches!(r, b".inf" | b".Inf" | b".INF") {
        return true;
    }
    let ni = digits(r);
    let i = &r[..ni];
    if !(i.is_empty() || i[0] != b'0' || ni == 1) {
        return false;
    }
    let mut rest = &r[ni..];
    let mut nf = 0;
    if let [b'.', t @ ..] = rest {
        nf = digits(t);
        rest = &t[nf..];
    }
    if ni == 0 && nf == 0 {
        return false;
    }
    if let [b'e' | b'E', t @ ..] = rest {
        let t = unsigned(t);
        let ne = digits(t);
        if ne == 0 {
            return false;
        }
        rest = &t[ne..];
    }
    rest.is_empty()
}
/// the reader resolves s to a non-string (keyword, integer or float)
pub(crate) fn m_non_string(b: &[u8]) -> bool {
    is_keyword(b) || m_is_int(b) || m_is_float(b)
}
