// C14 support: exposes the YAML writer's private quoting decision to the reader-side harness.
//@@ mount: jaq-fmts/src/write/yaml.rs as verif_c14_w
//@@ support
#![allow(dead_code)]
pub(crate) fn must_quote(s: &[u8]) -> bool {
    super::must_quote(s)
}
