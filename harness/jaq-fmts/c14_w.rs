// C14 (writer side) — whatever may be read back as a non-string is quoted by the writer.
//@@ mount: jaq-fmts/src/write/yaml.rs as verif_c14_w
//@@ prop: C14
#![allow(dead_code, unused_imports)]
use super::*;
use crate::verif_c14_model::*;

fn w_check(b: &[u8]) {
    if m_mid(b) {
        assert!(must_quote(b), "a keyword- or number-like text string is written as a plain scalar");
    }
    kani::cover!(!must_quote(b));
    kani::cover!(m_mid(b));
}

//@ tier: quick
//@ funcs: write::yaml::must_quote, write::yaml::ns_plain_one_line
//@ bounds: every ASCII string of length 1 (symbolic bytes < 0x80); unwind 30 = the 27 keywords of the table in one flat list + slack (the tree nests them 9 x 3)
//@ asserts: W: core-schema keywords and number-like strings (optional sign, then a digit, a dot followed by a digit, or an infinity spelling) are quoted by the writer -- "+1", ".5", "-.5", "0x1f", "1e3" ...
#[kani::proof]
#[kani::unwind(30)]
fn c14_w_numberlike_is_quoted_1() {
    let b: [u8; 1] = kani::any();
    let mut k = 0;
    while k < 1 {
        kani::assume(b[k] < 0x80);
        k += 1;
    }
    w_check(&b);
}

//@ tier: quick
//@ funcs: write::yaml::must_quote, write::yaml::ns_plain_one_line
//@ bounds: every ASCII string of length 2 (symbolic bytes < 0x80); unwind 30 = the 27 keywords of the table in one flat list + slack (the tree nests them 9 x 3)
//@ asserts: W: core-schema keywords and number-like strings (optional sign, then a digit, a dot followed by a digit, or an infinity spelling) are quoted by the writer -- "+1", ".5", "-.5", "0x1f", "1e3" ...
#[kani::proof]
#[kani::unwind(30)]
fn c14_w_numberlike_is_quoted_2() {
    let b: [u8; 2] = kani::any();
    let mut k = 0;
    while k < 2 {
        kani::assume(b[k] < 0x80);
        k += 1;
    }
    w_check(&b);
}

//@ tier: quick
//@ funcs: write::yaml::must_quote, write::yaml::ns_plain_one_line
//@ bounds: every ASCII string of length 3 (symbolic bytes < 0x80); unwind 30 = the 27 keywords of the table in one flat list + slack (the tree nests them 9 x 3)
//@ asserts: W: core-schema keywords and number-like strings (optional sign, then a digit, a dot followed by a digit, or an infinity spelling) are quoted by the writer -- "+1", ".5", "-.5", "0x1f", "1e3" ...
#[kani::proof]
#[kani::unwind(30)]
fn c14_w_numberlike_is_quoted_3() {
    let b: [u8; 3] = kani::any();
    let mut k = 0;
    while k < 3 {
        kani::assume(b[k] < 0x80);
        k += 1;
    }
    w_check(&b);
}

//@ tier: thorough
//@ timeout: 2400
//@ funcs: write::yaml::must_quote, write::yaml::ns_plain_one_line
//@ bounds: every ASCII string of length 4 (symbolic bytes < 0x80); unwind 30 = the 27 keywords of the table in one flat list + slack (the tree nests them 9 x 3)
//@ asserts: W: core-schema keywords and number-like strings (optional sign, then a digit, a dot followed by a digit, or an infinity spelling) are quoted by the writer -- "+1", ".5", "-.5", "0x1f", "1e3" ...
#[kani::proof]
#[kani::unwind(30)]
fn c14_w_numberlike_is_quoted_4() {
    let b: [u8; 4] = kani::any();
    let mut k = 0;
    while k < 4 {
        kani::assume(b[k] < 0x80);
        k += 1;
    }
    w_check(&b);
}

// Longer spellings by FAMILY: the prefix that selects the family is concrete, the rest symbolic, so
// that the 4- and 5-byte reserved spellings (`.inf`, `.nan`, `-.inf`, `+.INF`, `false`) are inside the
// quick tier without paying for all 2^28 / 2^35 ASCII strings of that length.

//@ tier: quick
//@ funcs: write::yaml::must_quote, write::yaml::ns_plain_one_line
//@ bounds: every ASCII string of length 4 that starts with a dot (`.` + 3 symbolic bytes < 0x80: `.inf`, `.Inf`, `.INF`, `.nan`, `.NaN`, `.NAN`, `.5xx`, ...)
//@ asserts: W: core-schema keywords and number-like strings are quoted by the writer
/// As `w_check`, for a family whose members the current writer may quote altogether (everything that
/// starts with a dot is quoted today): the witnesses are that the family has members on both sides of
/// the interpolant, not that some member is written plain.
fn w_check_family(b: &[u8]) {
    if m_mid(b) {
        assert!(must_quote(b), "a keyword- or number-like text string is written as a plain scalar");
    }
    kani::cover!(!m_mid(b));
    kani::cover!(m_mid(b));
}

#[kani::proof]
#[kani::unwind(30)]
fn c14_w_dot_family_4() {
    let b: [u8; 4] = kani::any();
    kani::assume(b[0] == b'.');
    let mut k = 1;
    while k < 4 {
        kani::assume(b[k] < 0x80);
        k += 1;
    }
    w_check_family(&b);
    kani::cover!(b[1] == b'i' && m_mid(&b));
}

//@ tier: quick
//@ funcs: write::yaml::must_quote, write::yaml::ns_plain_one_line
//@ bounds: every ASCII string of length 5 that starts with a sign and a dot (`+.` / `-.` + 3 symbolic bytes < 0x80: the signed infinities `-.inf`, `+.Inf`, `-.INF`, ..., `-.5x`, ...)
//@ asserts: W: core-schema keywords and number-like strings are quoted by the writer
#[kani::proof]
#[kani::unwind(30)]
fn c14_w_signed_dot_family_5() {
    let b: [u8; 5] = kani::any();
    kani::assume(b[0] == b'-' || b[0] == b'+');
    kani::assume(b[1] == b'.');
    let mut k = 2;
    while k < 5 {
        kani::assume(b[k] < 0x80);
        k += 1;
    }
    w_check_family(&b);
    kani::cover!(b[2] == b'I' && m_mid(&b));
}

//@ tier: quick
//@ funcs: write::yaml::must_quote, write::yaml::ns_plain_one_line
//@ bounds: every ASCII string of length 5 that starts with `f` or `F` (4 symbolic bytes < 0x80: `false`, `False`, `FALSE`)
//@ asserts: W: core-schema keywords and number-like strings are quoted by the writer
#[kani::proof]
#[kani::unwind(30)]
fn c14_w_false_family_5() {
    let b: [u8; 5] = kani::any();
    kani::assume(b[0] == b'f' || b[0] == b'F');
    let mut k = 1;
    while k < 5 {
        kani::assume(b[k] < 0x80);
        k += 1;
    }
    w_check_family(&b);
    kani::cover!(m_mid(&b));
}
