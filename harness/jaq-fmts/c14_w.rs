// C14 (writer side) — whatever the YAML reader resolves to a non-string is quoted by the writer.
//@@ mount: jaq-fmts/src/write/yaml.rs as verif_c14_w
//@@ prop: C14
#![allow(dead_code, unused_imports)]
use super::*;
use crate::verif_c14_model::*;

fn w_check(b: &[u8]) {
    if !must_quote(b) {
        assert!(!m_non_string(b), "a text string that reads back as a number or keyword is written unquoted");
    }
    kani::cover!(!must_quote(b));
    kani::cover!(must_quote(b) && !m_non_string(b));
}

//@ tier: quick
//@ funcs: write::yaml::must_quote, write::yaml::ns_plain_one_line
//@ bounds: every ASCII string of length 1 (symbolic bytes < 0x80)
//@ asserts: W: a text string the writer leaves UNQUOTED is not resolved to a keyword, integer or float by the independent core-schema recogniser (shown equivalent to the real reader by the c14_r_* harnesses) -- "+1", ".5", "-.inf", "0x1f", "1e3" must all be quoted
#[kani::proof]
#[kani::unwind(24)]
fn c14_w_unquoted_is_not_numberlike_1() {
    let b: [u8; 1] = kani::any();
    let mut k = 0;
    while k < 1 {
        kani::assume(b[k] < 0x80);
        k += 1;
    }
    w_check(&b);
}

//@ tier: quick
//@ funcs: write::yaml::must_quote, write::yaml::ns_plain_one_line
//@ bounds: every ASCII string of length 2 (symbolic bytes < 0x80)
//@ asserts: W: a text string the writer leaves UNQUOTED is not resolved to a keyword, integer or float by the independent core-schema recogniser (shown equivalent to the real reader by the c14_r_* harnesses) -- "+1", ".5", "-.inf", "0x1f", "1e3" must all be quoted
#[kani::proof]
#[kani::unwind(24)]
fn c14_w_unquoted_is_not_numberlike_2() {
    let b: [u8; 2] = kani::any();
    let mut k = 0;
    while k < 2 {
        kani::assume(b[k] < 0x80);
        k += 1;
    }
    w_check(&b);
}

//@ tier: quick
//@ funcs: write::yaml::must_quote, write::yaml::ns_plain_one_line
//@ bounds: every ASCII string of length 3 (symbolic bytes < 0x80)
//@ asserts: W: a text string the writer leaves UNQUOTED is not resolved to a keyword, integer or float by the independent core-schema recogniser (shown equivalent to the real reader by the c14_r_* harnesses) -- "+1", ".5", "-.inf", "0x1f", "1e3" must all be quoted
#[kani::proof]
#[kani::unwind(24)]
fn c14_w_unquoted_is_not_numberlike_3() {
    let b: [u8; 3] = kani::any();
    let mut k = 0;
    while k < 3 {
        kani::assume(b[k] < 0x80);
        k += 1;
    }
    w_check(&b);
}

//@ tier: thorough
//@ timeout: 2400
//@ funcs: write::yaml::must_quote, write::yaml::ns_plain_one_line
//@ bounds: every ASCII string of length 4 (symbolic bytes < 0x80)
//@ asserts: W: a text string the writer leaves UNQUOTED is not resolved to a keyword, integer or float by the independent core-schema recogniser (shown equivalent to the real reader by the c14_r_* harnesses) -- "+1", ".5", "-.inf", "0x1f", "1e3" must all be quoted
#[kani::proof]
#[kani::unwind(24)]
fn c14_w_unquoted_is_not_numberlike_4() {
    let b: [u8; 4] = kani::any();
    let mut k = 0;
    while k < 4 {
        kani::assume(b[k] < 0x80);
        k += 1;
    }
    w_check(&b);
}
