// C14 (writer side) — whatever may be read back as a non-string is quoted by the writer.
//@@ mount: jaq-fmts/src/write/yaml.rs as verif_c14_w
//@@ prop: C14
#![allow(dead_code, unused_imports)]
use super::*;
use crate::verif_c14_model::*;

fn w_check(b: &[u8]) {
    if m_mid(b) {
        assert!(must_quote(b), "a keyword- or number-like text string is written as a plain scalar");
    }
    kani::cover!(!must_quote(b));
    kani::cover!(m_mid(b));
}

//@ tier: quick
//@ funcs: write::yaml::must_quote, write::yaml::ns_plain_one_line
//@ bounds: every ASCII string of length 1 (symbolic bytes < 0x80); unwind 30 = the 27 keywords of the table in one flat list + slack (the tree nests them 9 x 3)
//@ asserts: W: core-schema keywords and number-like strings (optional sign, then a digit, a dot followed by a digit, or an infinity spelling) are quoted by the writer -- "+1", ".5", "-.5", "0x1f", "1e3" ...
#[kani::proof]
#[kani::unwind(30)]
fn c14_w_numberlike_is_quoted_1() {
    let b: [u8; 1] = kani::any();
    let mut k = 0;
    while k < 1 {
        kani::assume(b[k] < 0x80);
        k += 1;
    }
    w_check(&b);
}

//@ tier: quick
//@ funcs: write::yaml::must_quote, write::yaml::ns_plain_one_line
//@ bounds: every ASCII string of length 2 (symbolic bytes < 0x80); unwind 30 = the 27 keywords of the table in one flat list + slack (the tree nests them 9 x 3)
//@ asserts: W: core-schema keywords and number-like strings (optional sign, then a digit, a dot followed by a digit, or an infinity spelling) are quoted by the writer -- "+1", ".5", "-.5", "0x1f", "1e3" ...
#[kani::proof]
#[kani::unwind(30)]
fn c14_w_numberlike_is_quoted_2() {
    let b: [u8; 2] = kani::any();
    let mut k = 0;
    while k < 2 {
        kani::assume(b[k] < 0x80);
        k += 1;
    }
    w_check(&b);
}

//@ tier: quick
//@ funcs: write::yaml::must_quote, write::yaml::ns_plain_one_line
//@ bounds: every ASCII string of length 3 (symbolic bytes < 0x80); unwind 30 = the 27 keywords of the table in one flat list + slack (the tree nests them 9 x 3)
//@ asserts: W: core-schema keywords and number-like strings (optional sign, then a digit, a dot followed by a digit, or an infinity spelling) are quoted by the writer -- "+1", ".5", "-.5", "0x1f", "1e3" ...
#[kani::proof]
#[kani::unwind(30)]
fn c14_w_numberlike_is_quoted_3() {
    let b: [u8; 3] = kani::any();
    let mut k = 0;
    while k < 3 {
        kani::assume(b[k] < 0x80);
        k += 1;
    }
    w_check(&b);
}

//@ tier: thorough
//@ timeout: 2400
//@ funcs: write::yaml::must_quote, write::yaml::ns_plain_one_line
//@ bounds: every ASCII string of length 4 (symbolic bytes < 0x80); unwind 30 = the 27 keywords of the table in one flat list + slack (the tree nests them 9 x 3)
//@ asserts: W: core-schema keywords and number-like strings (optional sign, then a digit, a dot followed by a digit, or an infinity spelling) are quoted by the writer -- "+1", ".5", "-.5", "0x1f", "1e3" ...
#[kani::proof]
#[kani::unwind(30)]
fn c14_w_numberlike_is_quoted_4() {
    let b: [u8; 4] = kani::any();
    let mut k = 0;
    while k < 4 {
        kani::assume(b[k] < 0x80);
        k += 1;
    }
    w_check(&b);
}
