// C14 (reader side) — the YAML reader resolves an untagged plain scalar to a number only if it looks
// like one. Child module of jaq-fmts/src/read/yaml.rs (sees parse_int, parse_float and their helpers).
//@@ mount: jaq-fmts/src/read/yaml.rs as verif_c14_r
//@@ prop: C14
#![allow(dead_code, unused_imports)]
use super::*;
use crate::verif_c14_model::*;
use alloc::{vec, vec::Vec};

/// Model of `Num::from_str_radix(i, radix)`: like `isize::from_str_radix` and jaq's big-integer
/// fallback it accepts an OPTIONAL LEADING SIGN followed by at least one digit of the radix, and nothing
/// else. (The real function falls back to num-bigint, which does not decide.) The VALUE is not the subject.
fn radix_model(i: &str, radix: u32) -> Option<Num> {
    let b = i.as_bytes();
    let b = match b {
        [b'+' | b'-', rest @ ..] => rest,
        _ => b,
    };
    if b.is_empty() {
        return None;
    }
    let mut k = 0;
    while k < b.len() {
        let d = match b[k] {
            b'0'..=b'9' => b[k] - b'0',
            b'a'..=b'z' => b[k] - b'a' + 10,
            b'A'..=b'Z' => b[k] - b'A' + 10,
            _ => return None,
        };
        if d as u32 >= radix {
            return None;
        }
        k += 1;
    }
    Some(Num::Int(0))
}
/// applying the sign to the parsed number is not the subject (and `Neg for Num` on a value of
/// unknown representation executes decimal formatting and big-integer code)
fn neg_id(n: Num) -> Num {
    n
}
fn no_format(_args: core::fmt::Arguments<'_>) -> String {
    String::new()
}
fn ascii<const N: usize>() -> [u8; N] {
    let b: [u8; N] = kani::any();
    let mut k = 0;
    while k < N {
        kani::assume(b[k] < 0x80);
        k += 1;
    }
    b
}
fn r_int(b: &[u8]) {
    let s = core::str::from_utf8(b).unwrap();
    let i = parse_int(s);
    if i.is_some() {
        assert!(m_mid(b), "the reader takes for an integer a string that is not number-like");
    }
    kani::cover!(i.is_some());
    kani::cover!(i.is_none());
    core::mem::forget(i);
}
fn r_float(b: &[u8]) {
    let s = core::str::from_utf8(b).unwrap();
    let f = parse_float(s);
    if f.is_some() {
        assert!(m_mid(b), "the reader takes for a float a string that is not number-like");
    }
    kani::cover!(f.is_some());
    kani::cover!(f.is_none());
    core::mem::forget(f);
}

//@ tier: quick
//@ funcs: read::yaml::parse_int, parse_sign, parse_radix
//@ bounds: every ASCII string of length 1
//@ assume: jaq_json::Num::from_str_radix replaced by a digit-validity model; <Num as Neg>::neg replaced by the identity (the numeric VALUE is not the subject)
//@ asserts: R_int: if the real parse_int resolves s to an integer then s is number-like (optional sign, then a digit): the reader never turns `e5`, `--1`, `x1` ... into a number
#[kani::proof]
#[kani::unwind(8)]
#[kani::stub(jaq_json::Num::from_str_radix, radix_model)]
#[kani::stub(<jaq_json::Num as core::ops::Neg>::neg, neg_id)]
fn c14_r_int_is_numberlike_1() {
    let b = ascii::<1>();
    r_int(&b);
}

//@ tier: quick
//@ funcs: read::yaml::parse_int, parse_sign, parse_radix
//@ bounds: every ASCII string of length 2
//@ assume: jaq_json::Num::from_str_radix replaced by a digit-validity model; <Num as Neg>::neg replaced by the identity (the numeric VALUE is not the subject)
//@ asserts: R_int: if the real parse_int resolves s to an integer then s is number-like (optional sign, then a digit): the reader never turns `e5`, `--1`, `x1` ... into a number
#[kani::proof]
#[kani::unwind(8)]
#[kani::stub(jaq_json::Num::from_str_radix, radix_model)]
#[kani::stub(<jaq_json::Num as core::ops::Neg>::neg, neg_id)]
fn c14_r_int_is_numberlike_2() {
    let b = ascii::<2>();
    r_int(&b);
}

//@ tier: quick
//@ funcs: read::yaml::parse_int, parse_sign, parse_radix
//@ bounds: every ASCII string of length 3
//@ assume: jaq_json::Num::from_str_radix replaced by a digit-validity model; <Num as Neg>::neg replaced by the identity (the numeric VALUE is not the subject)
//@ asserts: R_int: if the real parse_int resolves s to an integer then s is number-like (optional sign, then a digit): the reader never turns `e5`, `--1`, `x1` ... into a number
#[kani::proof]
#[kani::unwind(8)]
#[kani::stub(jaq_json::Num::from_str_radix, radix_model)]
#[kani::stub(<jaq_json::Num as core::ops::Neg>::neg, neg_id)]
fn c14_r_int_is_numberlike_3() {
    let b = ascii::<3>();
    r_int(&b);
}

//@ tier: quick
//@ funcs: read::yaml::parse_float, normalise_float, parse_sign, strip
//@ bounds: every ASCII string of length 1
//@ assume: alloc::fmt::format stubbed (the normalised float TEXT is not the subject)
//@ asserts: R_float: if the real parse_float resolves s to a float then s is number-like (optional sign, then a digit, a dot followed by a digit, or an infinity spelling)
#[kani::proof]
#[kani::unwind(8)]
#[kani::stub(alloc::fmt::format, no_format)]
fn c14_r_float_is_numberlike_1() {
    let b = ascii::<1>();
    r_float(&b);
}

//@ tier: quick
//@ funcs: read::yaml::parse_float, normalise_float, parse_sign, strip
//@ bounds: every ASCII string of length 2
//@ assume: alloc::fmt::format stubbed (the normalised float TEXT is not the subject)
//@ asserts: R_float: if the real parse_float resolves s to a float then s is number-like (optional sign, then a digit, a dot followed by a digit, or an infinity spelling)
#[kani::proof]
#[kani::unwind(8)]
#[kani::stub(alloc::fmt::format, no_format)]
fn c14_r_float_is_numberlike_2() {
    let b = ascii::<2>();
    r_float(&b);
}

//@ tier: thorough
//@ timeout: 2400
//@ mem_gb: 24
//@ funcs: read::yaml::parse_float, normalise_float, parse_sign, strip
//@ bounds: every ASCII string of length 3
//@ assume: alloc::fmt::format stubbed (the normalised float TEXT is not the subject)
//@ asserts: R_float: if the real parse_float resolves s to a float then s is number-like (optional sign, then a digit, a dot followed by a digit, or an infinity spelling)
#[kani::proof]
#[kani::unwind(8)]
#[kani::stub(alloc::fmt::format, no_format)]
fn c14_r_float_is_numberlike_3() {
    let b = ascii::<3>();
    r_float(&b);
}

/// What the reader does with an UNTAGGED plain scalar, in the order of `parse_plain_scalar`:
/// core-schema keyword, else integer, else float, else string.
fn reader_says_string(b: &[u8]) -> bool {
    if is_keyword(b) {
        return false;
    }
    let s = core::str::from_utf8(b).unwrap();
    let i = parse_int(s);
    let is_int = i.is_some();
    core::mem::forget(i);
    if is_int {
        return false;
    }
    let f = parse_float(s);
    let is_float = f.is_some();
    core::mem::forget(f);
    !is_float
}
fn direct(b: &[u8]) {
    if !crate::write::yaml::verif_c14_wq::quoted(b) {
        assert!(reader_says_string(b), "a text string written as a plain scalar is not read back as a string");
    }
    kani::cover!(!crate::write::yaml::verif_c14_wq::quoted(b));
    kani::cover!(crate::write::yaml::verif_c14_wq::quoted(b) && reader_says_string(b));
}

//@ tier: attempt
//@ funcs: write::yaml::must_quote, ns_plain_one_line, read::yaml::parse_int, parse_float, parse_sign, parse_radix, normalise_float, strip
//@ bounds: every ASCII string of length 1
//@ assume: Num::from_str_radix replaced by a digit-validity model; <Num as Neg>::neg by the identity; alloc::fmt::format stubbed; the reader's keyword list is restated in the harness model
//@ asserts: EXACT form (no over-approximation): whenever the writer does NOT quote a text string, the reader's scalar resolution (keyword / integer / float / string) yields a string
#[kani::proof]
#[kani::unwind(24)]
#[kani::stub(jaq_json::Num::from_str_radix, radix_model)]
#[kani::stub(<jaq_json::Num as core::ops::Neg>::neg, neg_id)]
#[kani::stub(alloc::fmt::format, no_format)]
fn c14_plain_scalar_reads_back_as_string_1() {
    let b = ascii::<1>();
    direct(&b);
}

//@ tier: attempt
//@ funcs: write::yaml::must_quote, ns_plain_one_line, read::yaml::parse_int, parse_float, parse_sign, parse_radix, normalise_float, strip
//@ bounds: every ASCII string of length 2
//@ assume: Num::from_str_radix replaced by a digit-validity model; <Num as Neg>::neg by the identity; alloc::fmt::format stubbed; the reader's keyword list is restated in the harness model
//@ asserts: EXACT form (no over-approximation): whenever the writer does NOT quote a text string, the reader's scalar resolution (keyword / integer / float / string) yields a string
#[kani::proof]
#[kani::unwind(24)]
#[kani::stub(jaq_json::Num::from_str_radix, radix_model)]
#[kani::stub(<jaq_json::Num as core::ops::Neg>::neg, neg_id)]
#[kani::stub(alloc::fmt::format, no_format)]
fn c14_plain_scalar_reads_back_as_string_2() {
    let b = ascii::<2>();
    direct(&b);
}

//@ tier: attempt
//@ timeout: 2400
//@ mem_gb: 24
//@ funcs: write::yaml::must_quote, ns_plain_one_line, read::yaml::parse_int, parse_float, parse_sign, parse_radix, normalise_float, strip
//@ bounds: every ASCII string of length 3
//@ assume: Num::from_str_radix replaced by a digit-validity model; <Num as Neg>::neg by the identity; alloc::fmt::format stubbed; the reader's keyword list is restated in the harness model
//@ asserts: EXACT form (no over-approximation): whenever the writer does NOT quote a text string, the reader's scalar resolution (keyword / integer / float / string) yields a string
#[kani::proof]
#[kani::unwind(24)]
#[kani::stub(jaq_json::Num::from_str_radix, radix_model)]
#[kani::stub(<jaq_json::Num as core::ops::Neg>::neg, neg_id)]
#[kani::stub(alloc::fmt::format, no_format)]
fn c14_plain_scalar_reads_back_as_string_3() {
    let b = ascii::<3>();
    direct(&b);
}

//@ tier: quick
//@ funcs: read::yaml::parse_int, parse_sign, parse_radix
//@ bounds: every ASCII string of length 4 (the shortest length at which a sign can follow a radix prefix: `0x-1`)
//@ assume: jaq_json::Num::from_str_radix replaced by a sign-and-digits model; <Num as Neg>::neg replaced by the identity
//@ asserts: R_int on 4-byte strings (radix prefixes with a payload: 0x1f, 0b10, 0o17, and signs after the prefix)
#[kani::proof]
#[kani::unwind(8)]
#[kani::stub(jaq_json::Num::from_str_radix, radix_model)]
#[kani::stub(<jaq_json::Num as core::ops::Neg>::neg, neg_id)]
fn c14_r_int_is_numberlike_4() {
    let b = ascii::<4>();
    r_int(&b);
}

//@ tier: quick
//@ funcs: read::yaml::parse_float, normalise_float, parse_sign, strip
//@ bounds: every ASCII string of length 5 that starts with a sign and a dot (`+.` / `-.` + 3 symbolic bytes < 0x80) -- the reader-side counterpart of c14_w_signed_dot_family_5
//@ assume: alloc::fmt::format stubbed (the normalised float TEXT is not the subject)
//@ asserts: R_float on the signed-dot family: if the real parse_float resolves s to a float then s is number-like
#[kani::proof]
#[kani::unwind(8)]
#[kani::stub(alloc::fmt::format, no_format)]
fn c14_r_float_signed_dot_family_5() {
    let b: [u8; 5] = kani::any();
    kani::assume(b[0] == b'-' || b[0] == b'+');
    kani::assume(b[1] == b'.');
    let mut k = 2;
    while k < 5 {
        kani::assume(b[k] < 0x80);
        k += 1;
    }
    r_float(&b);
}

//@ tier: quick
//@ funcs: read::yaml::parse_int, parse_sign, parse_radix
//@ bounds: every ASCII string of length 5 that starts with a sign and a dot (`+.` / `-.` + 3 symbolic bytes < 0x80)
//@ assume: jaq_json::Num::from_str_radix replaced by a sign-and-digits model; <Num as Neg>::neg replaced by the identity
//@ asserts: R_int on the signed-dot family: if the real parse_int resolves s to an integer then s is number-like; with c14_r_float_signed_dot_family_5 and c14_w_signed_dot_family_5 this gives P for the whole family
#[kani::proof]
#[kani::unwind(8)]
#[kani::stub(jaq_json::Num::from_str_radix, radix_model)]
#[kani::stub(<jaq_json::Num as core::ops::Neg>::neg, neg_id)]
fn c14_r_int_signed_dot_family_5() {
    let b: [u8; 5] = kani::any();
    kani::assume(b[0] == b'-' || b[0] == b'+');
    kani::assume(b[1] == b'.');
    let mut k = 2;
    while k < 5 {
        kani::assume(b[k] < 0x80);
        k += 1;
    }
    let s = core::str::from_utf8(&b).unwrap();
    let i = parse_int(s);
    if i.is_some() {
        assert!(m_mid(&b), "the reader takes for an integer a string that is not number-like");
    }
    kani::cover!(i.is_none());
    core::mem::forget(i);
}
