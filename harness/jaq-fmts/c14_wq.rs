// C14 support: exposes the YAML writer's private quoting decision to the reader-side harnesses.
//@@ mount: jaq-fmts/src/write/yaml.rs as verif_c14_wq
//@@ support
#![allow(dead_code)]
pub(crate) fn quoted(b: &[u8]) -> bool {
    super::must_quote(b)
}
