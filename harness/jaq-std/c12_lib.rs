// C12 — collection / rounding built-ins of jaq-std obey their documented definitions.
//@@ mount: jaq-std/src/lib.rs as verif_c12_lib
//@@ prop: C12
#![allow(dead_code, unused_imports)]
use super::*;
use crate::verif_mv::{no_format, MV};
use alloc::{vec, vec::Vec}; // for generated concrete-playback tests (no_std crate)

//@ tier: quick
//@ inst: V = MV
//@ funcs: ValTx::round::<MV> with f64::floor, f64::round, f64::ceil
//@ bounds: all f64 (incl. NaN, infinities, beyond +-2^63), all three rounding modes
//@ assume: alloc::fmt::format stubbed (the `{f:.0}` rendering of floats beyond the machine range is not the subject)
//@ asserts: floor/round/ceil of a float yield the closest smaller / closest / closest larger integer: a machine-integer result equals the IEEE-rounded float exactly (compared in i128, so a saturating cast cannot hide); results beyond the machine range take the big-number path; non-finite input is passed through (integers: c12_round_integers_unchanged)
#[kani::proof]
#[kani::unwind(6)]
#[kani::stub(alloc::fmt::format, no_format)]
fn c12_round_exact_or_big() {
    let f: f64 = kani::any();
    let which: u8 = kani::any();
    kani::assume(which < 3);
    let (r, want) = match which {
        0 => (MV::Float(f).round(f64::floor), f.floor()),
        1 => (MV::Float(f).round(f64::round), f.round()),
        _ => (MV::Float(f).round(f64::ceil), f.ceil()),
    };
    match &r {
        Ok(MV::Int(v)) => {
            assert!(want.is_finite());
            // |want| <= 2^63 here, so the i128 conversion is exact
            assert!(*v as i128 == want as i128);
        }
        Ok(MV::Big) => {
            assert!(want.is_finite());
            assert!(want >= 9223372036854775808.0 || want < -9223372036854775808.0);
        }
        Ok(MV::Float(g)) => assert!(!f.is_finite() && (g.is_nan() == f.is_nan())),
        _ => panic!("round of a float yielded a non-number or an error"),
    }
    kani::cover!(matches!(r, Ok(MV::Int(isize::MIN))));
    kani::cover!(matches!(r, Ok(MV::Big)) && f > 0.0);
    kani::cover!(matches!(r, Ok(MV::Int(-1))) && which == 0);
    kani::cover!(matches!(r, Ok(MV::Int(1))) && which == 1 && f < 1.0);
    core::mem::forget(r);
}

fn key_half<'a>(v: MV) -> ValXs<'a, MV> {
    match v {
        MV::Int(i) => box_once(Ok(MV::Int(i >> 1))),
        _ => box_once(Err(Exn::from(Error::new(v)))),
    }
}

//@ tier: quick
//@ inst: V = MV
//@ funcs: ValTx::round::<MV> with f64::floor, f64::round, f64::ceil
//@ bounds: all machine integers (also beyond 2^53, where i as f64 is inexact) and the big-integer surrogate, all three rounding modes
//@ assume: alloc::fmt::format stubbed
//@ asserts: floor/round/ceil return an integer unchanged -- it is never sent through f64 and back
#[kani::proof]
#[kani::unwind(6)]
#[kani::stub(alloc::fmt::format, no_format)]
fn c12_round_integers_unchanged() {
    let i: isize = kani::any();
    let which: u8 = kani::any();
    kani::assume(which < 3);
    let r = match which {
        0 => MV::Int(i).round(f64::floor),
        1 => MV::Int(i).round(f64::round),
        _ => MV::Int(i).round(f64::ceil),
    };
    assert!(matches!(r, Ok(MV::Int(j)) if j == i));
    let b = MV::Big.round(f64::floor);
    assert!(matches!(b, Ok(MV::Big)));
    kani::cover!(i == isize::MAX);
    kani::cover!(i == 9007199254740993);
    core::mem::forget((r, b));
}

//@ tier: attempt
//@ timeout: 2400
//@ inst: V = MV; elements are machine integers, the key filter is `. / 2` (so 2k and 2k+1 tie)
//@ funcs: jaq_std::sort_by::<MV>
//@ bounds: arrays of exactly 2 elements, each any integer in 0..=7
//@ asserts: sort_by is a stable sort by key: the output is ordered by key and elements with equal keys keep their input order (ties are NOT broken by the element's own value)
#[kani::proof]
#[kani::unwind(6)]
fn c12_sort_by_stable_2() {
    let (a, b): (u8, u8) = (kani::any(), kani::any());
    kani::assume(a <= 7 && b <= 7);
    let mut xs = [MV::Int(a as isize), MV::Int(b as isize)];
    let r = sort_by(&mut xs, key_half);
    assert!(r.is_ok());
    let out = |k: usize| if let MV::Int(i) = xs[k] { i as u8 } else { 255 };
    let (o0, o1) = (out(0), out(1));
    if (a >> 1) <= (b >> 1) {
        assert!(o0 == a && o1 == b);
    } else {
        assert!(o0 == b && o1 == a);
    }
    kani::cover!(a >> 1 == b >> 1 && a > b);
    kani::cover!(a >> 1 > b >> 1);
    core::mem::forget((r, xs));
}
