// C20 / C05 — time kernels: epoch scaling and broken-down-time conversion.
// Child module of jaq-std/src/time.rs.
//@@ mount: jaq-std/src/time.rs as verif_c20_time
//@@ prop: C20
#![allow(dead_code, unused_imports)]
use super::*;
use crate::verif_mv::{no_format, MV};
use alloc::{vec, vec::Vec}; // for generated concrete-playback tests (no_std crate)

/// jiff's error rendering is not the subject (and executing it does not decide: 1500 s / 11 GB).
fn no_fmt(_e: &jiff::Error, _f: &mut core::fmt::Formatter<'_>) -> core::fmt::Result {
    Ok(())
}

//@ tier: quick
//@ inst: V = MV
//@ funcs: time::array_to_datetime::<MV>, jiff::civil::DateTime::new
//@ bounds: six fields, each any isize (year, month, day, hour, minute, second)
//@ assume: jiff::Error's Display stubbed (error text is not the subject)
//@ asserts: Kani's built-in checks (the month + 1 on i8, casts) under dev-profile semantics; an accepted array has every field inside its calendar range and the DateTime carries exactly those fields
#[kani::proof]
#[kani::unwind(8)]
#[kani::stub(<jiff::Error as core::fmt::Display>::fmt, no_fmt)]
fn c20_bdt_int_fields_no_panic() {
    let v: [MV; 6] = [
        MV::Int(kani::any()),
        MV::Int(kani::any()),
        MV::Int(kani::any()),
        MV::Int(kani::any()),
        MV::Int(kani::any()),
        MV::Int(kani::any()),
    ];
    let r = array_to_datetime(&v);
    if let Some(Ok(dt)) = &r {
        let f = |k: usize| if let MV::Int(i) = v[k] { i } else { unreachable!() };
        assert!(-9999 <= f(0) && f(0) <= 9999);
        assert!(0 <= f(1) && f(1) <= 11);
        assert!(1 <= f(2) && f(2) <= 31);
        assert!(0 <= f(3) && f(3) <= 23);
        assert!(0 <= f(4) && f(4) <= 59);
        assert!(0 <= f(5) && f(5) <= 59);
        assert!(dt.year() as isize == f(0) && dt.month() as isize == f(1) + 1);
        assert!(dt.day() as isize == f(2) && dt.second() as isize == f(5));
    }
    kani::cover!(matches!(r, Some(Ok(_))));
    kani::cover!(matches!(r, Some(Err(_))));
    kani::cover!(r.is_none());
    core::mem::forget((r, v));
}

//@ tier: quick
//@ inst: V = MV
//@ funcs: time::array_to_datetime::<MV>
//@ bounds: fixed valid date fields, seconds any f64 (NaN, infinities, negative, fractional)
//@ asserts: no panic; NaN / infinite / out-of-range seconds are rejected (never answered with a different instant); accepted seconds s satisfy 0 <= s < 60 and the stored second is floor(s)
#[kani::proof]
#[kani::unwind(8)]
#[kani::stub(<jiff::Error as core::fmt::Display>::fmt, no_fmt)]
fn c20_bdt_float_seconds() {
    let s: f64 = kani::any();
    let v: [MV; 6] = [MV::Int(2000), MV::Int(0), MV::Int(1), MV::Int(0), MV::Int(0), MV::Float(s)];
    let r = array_to_datetime(&v);
    match &r {
        Some(Ok(dt)) => {
            assert!(s.is_finite());
            assert!(0.0 <= s && s < 60.0);
            assert!(dt.second() as f64 == s.floor());
        }
        Some(Err(_)) | None => assert!(!(0.0 <= s && s < 60.0)),
    }
    kani::cover!(matches!(r, Some(Ok(_))) && s > 59.5);
    kani::cover!(matches!(r, Some(Err(_))));
    core::mem::forget((r, v));
}

//@ tier: quick
//@ inst: V = MV
//@ funcs: time::float_to_micros::<MV>
//@ bounds: all f64 epochs (NaN, infinities, fractions, beyond the i64 range)
//@ asserts: NaN is rejected with an error (never converted to 0 = 1970-01-01); no panic; an accepted value is the saturating truncation of f * 10^6; +-infinity saturate to i64::MAX/MIN, which the range check of jiff::Timestamp::from_microsecond rejects (that check itself is outside: executing jiff's error path does not decide, 10 min / 8 GB)
#[kani::proof]
#[kani::unwind(8)]
fn c20_float_epoch_rejects_nan() {
    let f: f64 = kani::any();
    let r = float_to_micros(&MV::Float(f));
    match &r {
        Ok(us) => {
            assert!(!f.is_nan());
            if f == f64::INFINITY {
                assert!(*us == i64::MAX);
            }
            if f == f64::NEG_INFINITY {
                assert!(*us == i64::MIN);
            }
            if f.abs() < 9.0e12 {
                // inside the exactly representable region the result is trunc(f * 1e6)
                assert!(*us as f64 == (f * 1000000.0).trunc());
            }
        }
        Err(_) => assert!(f.is_nan()),
    }
    kani::cover!(r.is_ok() && f < 0.0 && f.fract() != 0.0);
    kani::cover!(r.is_err());
    core::mem::forget(r);
}

/// Independent proleptic-Gregorian helpers (days-from-civil after H. Hinnant), on i64.
fn m_is_leap(y: i64) -> bool {
    (y % 4 == 0 && y % 100 != 0) || y % 400 == 0
}
fn m_days_before_month(y: i64, m: i64) -> i64 {
    // m in 1..=12
    let cum = [0, 31, 59, 90, 120, 151, 181, 212, 243, 273, 304, 334];
    cum[(m - 1) as usize] + if m > 2 && m_is_leap(y) { 1 } else { 0 }
}
fn m_days_from_civil(y: i64, m: i64, d: i64) -> i64 {
    let y = if m <= 2 { y - 1 } else { y };
    let era = (if y >= 0 { y } else { y - 399 }) / 400;
    let yoe = y - era * 400;
    let mp = (m + 9) % 12;
    let doy = (153 * mp + 2) / 5 + d - 1;
    let doe = yoe * 365 + yoe / 4 - yoe / 100 + doy;
    era * 146097 + doe - 719468
}

/// jiff's calendar arithmetic (weekday, day of year) does not decide on a symbolic date; where the
/// harness is about jaq's own field handling these two are replaced by constants.
fn stub_weekday(_dt: DateTime) -> jiff::civil::Weekday {
    jiff::civil::Weekday::Monday
}
fn stub_day_of_year(_dt: DateTime) -> i16 {
    1
}

fn any_dt() -> Option<(DateTime, i16, i8, i8, i8, i8, i8, i32)> {
    let (y, mo, d, h, mi, s): (i16, i8, i8, i8, i8, i8) = (kani::any(), kani::any(), kani::any(), kani::any(), kani::any(), kani::any());
    let ns: i32 = kani::any();
    DateTime::new(y, mo, d, h, mi, s, ns).ok().map(|dt| (dt, y, mo, d, h, mi, s, ns))
}
fn int_at(a: &[MV; 8], k: usize) -> i64 {
    if let MV::Int(i) = a[k] {
        i as i64
    } else {
        i64::MIN
    }
}

//@ tier: thorough
//@ timeout: 2400
//@ mem_gb: 24
//@ inst: V = MV
//@ funcs: time::datetime_to_array::<MV>, jiff::civil::DateTime::{new, year, month, day, hour, minute, second, subsec_nanosecond}
//@ assume: jiff::civil::DateTime::weekday and day_of_year stubbed by constants (entries 6 and 7 are NOT the subject here; with the real functions the harness does not decide)
//@ bounds: every civil date-time jiff accepts (year -9999..=9999; month, day, hour, minute, second, nanosecond symbolic)
//@ assume: jiff::Error's Display stubbed
//@ asserts: the first six entries of the broken-down array are [year, month-1, day, hours, minutes, seconds], seconds being an INTEGER exactly when the nanosecond part is 0 and a float otherwise (so every fraction survives gmtime; the float's value is not asserted); no arithmetic overflow (the inverse of array_to_datetime on every accepted date-time)
#[kani::proof]
#[kani::unwind(10)]
#[kani::stub(<jiff::Error as core::fmt::Display>::fmt, no_fmt)]
#[kani::stub(jiff::civil::DateTime::weekday, stub_weekday)]
#[kani::stub(jiff::civil::DateTime::day_of_year, stub_day_of_year)]
fn c20_datetime_to_array_fields() {
    if let Some((dt, y, mo, d, h, mi, s, ns)) = any_dt() {
        let a: [MV; 8] = datetime_to_array(dt);
        assert!(int_at(&a, 0) == y as i64 && int_at(&a, 1) == mo as i64 - 1 && int_at(&a, 2) == d as i64);
        assert!(int_at(&a, 3) == h as i64 && int_at(&a, 4) == mi as i64);
        if ns == 0 {
            assert!(int_at(&a, 5) == s as i64);
        } else {
            // any non-zero fraction (also .5 or .25, whose microsecond COMPONENT is 0) keeps the float form;
            // its VALUE (s + ns/10^9, a symbolic float division) is not asserted: that query does not decide
            assert!(matches!(a[5], MV::Float(_)));
        }
        assert!(int_at(&a, 6) == 1 && int_at(&a, 7) == 0);
        kani::cover!(mo == 2 && d == 29);
        kani::cover!(y < 0 && ns > 0);
        kani::cover!(ns == 500_000_000);
        core::mem::forget(a);
    }
}

//@ tier: attempt
//@ inst: V = MV
//@ funcs: time::datetime_to_array::<MV>, jiff::civil::DateTime::day_of_year
//@ bounds: every civil date jiff accepts (time of day fixed to 00:00:00)
//@ assume: jiff::Error's Display stubbed
//@ asserts: entry 7 is the day of the year from 0, as computed INDEPENDENTLY in the harness (cumulative month lengths + the Gregorian leap-year rule)
#[kani::proof]
#[kani::unwind(10)]
#[kani::stub(<jiff::Error as core::fmt::Display>::fmt, no_fmt)]
fn c20_datetime_to_array_yday() {
    let (y, mo, d): (i16, i8, i8) = (kani::any(), kani::any(), kani::any());
    if let Ok(dt) = DateTime::new(y, mo, d, 0, 0, 0, 0) {
        let a: [MV; 8] = datetime_to_array(dt);
        assert!(int_at(&a, 7) == m_days_before_month(y as i64, mo as i64) + d as i64 - 1);
        kani::cover!(mo == 12 && d == 31 && y % 4 == 0);
        kani::cover!(mo == 3 && d == 1 && y == 1900);
        core::mem::forget(a);
    }
}

//@ tier: attempt
//@ inst: V = MV
//@ funcs: time::datetime_to_array::<MV>, jiff::civil::DateTime::weekday, Weekday::to_sunday_zero_offset
//@ bounds: every civil date jiff accepts (time of day fixed to 00:00:00)
//@ assume: jiff::Error's Display stubbed
//@ asserts: entry 6 is the weekday counted from Sunday, as computed INDEPENDENTLY in the harness (days-from-civil, 1970-01-01 = Thursday)
#[kani::proof]
#[kani::unwind(10)]
#[kani::stub(<jiff::Error as core::fmt::Display>::fmt, no_fmt)]
fn c20_datetime_to_array_weekday() {
    let (y, mo, d): (i16, i8, i8) = (kani::any(), kani::any(), kani::any());
    if let Ok(dt) = DateTime::new(y, mo, d, 0, 0, 0, 0) {
        let a: [MV; 8] = datetime_to_array(dt);
        let days = m_days_from_civil(y as i64, mo as i64, d as i64);
        let wd = ((days % 7) + 7 + 4) % 7;
        assert!(int_at(&a, 6) == wd);
        kani::cover!(y == 1970 && mo == 1 && d == 1);
        kani::cover!(y < 0);
        core::mem::forget(a);
    }
}

fn bad_field(k: usize) {
    let bad = if kani::any() { MV::Float(kani::any()) } else { MV::Null };
    let mut v: [MV; 6] = [MV::Int(2000), MV::Int(0), MV::Int(1), MV::Int(0), MV::Int(0), MV::Int(0)];
    v[k] = bad;
    let r = array_to_datetime(&v);
    assert!(r.is_none());
    kani::cover!(k == 2 && matches!(v[2], MV::Float(f) if f == 1.5));
    kani::cover!(k == 0 && matches!(v[0], MV::Float(f) if f.is_nan()));
    core::mem::forget((r, v));
}

//@ tier: quick
//@ inst: V = MV
//@ funcs: time::array_to_datetime::<MV>
//@ bounds: a valid date-time array in which ONE of the fields year, month, day, hour, minute (case-split on the position) is replaced by any f64 (integral or not, NaN, infinite) or by a non-number
//@ asserts: malformed broken-down arrays are rejected: a non-integer value in an integer field never yields a date-time (no truncation of 1.5 to 1, no NaN read as 0)
#[kani::proof]
#[kani::unwind(8)]
#[kani::stub(<jiff::Error as core::fmt::Display>::fmt, no_fmt)]
fn c20_bdt_rejects_non_integer_fields() {
    bad_field(0);
    bad_field(1);
    bad_field(2);
    bad_field(3);
    bad_field(4);
}

//@ tier: quick
//@ inst: V = MV
//@ funcs: time::datetime_to_array::<MV> (time-of-day entries), jiff::civil::DateTime::constant
//@ bounds: the fixed date 2000-02-29 with every time of day: hour, minute, second and nanosecond symbolic
//@ assume: jiff::civil::DateTime::weekday and day_of_year stubbed by constants (not the subject; the real ones do not decide)
//@ asserts: entries 3 and 4 are hour and minute; entry 5 is the INTEGER second exactly when the nanosecond part is 0 and a float otherwise -- so .5, .25 and every other fraction survive gmtime (the float's value, a symbolic division, is not asserted)
#[kani::proof]
#[kani::unwind(6)]
#[kani::stub(jiff::civil::DateTime::weekday, stub_weekday)]
#[kani::stub(jiff::civil::DateTime::day_of_year, stub_day_of_year)]
fn c20_datetime_to_array_seconds() {
    let (h, mi, s): (i8, i8, i8) = (kani::any(), kani::any(), kani::any());
    let ns: i32 = kani::any();
    kani::assume(0 <= h && h < 24 && 0 <= mi && mi < 60 && 0 <= s && s < 60 && 0 <= ns && ns < 1_000_000_000);
    let dt = DateTime::constant(2000, 2, 29, h, mi, s, ns);
    let a: [MV; 8] = datetime_to_array(dt);
    assert!(int_at(&a, 0) == 2000 && int_at(&a, 1) == 1 && int_at(&a, 2) == 29);
    assert!(int_at(&a, 3) == h as i64 && int_at(&a, 4) == mi as i64);
    if ns == 0 {
        assert!(int_at(&a, 5) == s as i64);
    } else {
        assert!(matches!(a[5], MV::Float(_)));
    }
    kani::cover!(ns == 500_000_000);
    kani::cover!(ns == 0 && s == 59);
    kani::cover!(ns == 1);
    core::mem::forget(a);
}
