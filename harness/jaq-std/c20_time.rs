// C20 / C05 — time kernels: epoch scaling and broken-down-time conversion.
// Child module of jaq-std/src/time.rs.
//@@ mount: jaq-std/src/time.rs as verif_c20_time
//@@ prop: C20
#![allow(dead_code, unused_imports)]
use super::*;
use crate::verif_mv::{no_format, MV};
use alloc::{vec, vec::Vec}; // for generated concrete-playback tests (no_std crate)

/// jiff's error rendering is not the subject (and executing it does not decide: 1500 s / 11 GB).
fn no_fmt(_e: &jiff::Error, _f: &mut core::fmt::Formatter<'_>) -> core::fmt::Result {
    Ok(())
}

//@ tier: quick
//@ inst: V = MV
//@ funcs: time::array_to_datetime::<MV>, jiff::civil::DateTime::new
//@ bounds: six fields, each any isize (year, month, day, hour, minute, second)
//@ assume: jiff::Error's Display stubbed (error text is not the subject)
//@ asserts: Kani's built-in checks (the month + 1 on i8, casts) under dev-profile semantics; an accepted array has every field inside its calendar range and the DateTime carries exactly those fields
#[kani::proof]
#[kani::unwind(8)]
#[kani::stub(<jiff::Error as core::fmt::Display>::fmt, no_fmt)]
fn c20_bdt_int_fields_no_panic() {
    let v: [MV; 6] = [
        MV::Int(kani::any()),
        MV::Int(kani::any()),
        MV::Int(kani::any()),
        MV::Int(kani::any()),
        MV::Int(kani::any()),
        MV::Int(kani::any()),
    ];
    let r = array_to_datetime(&v);
    if let Some(Ok(dt)) = &r {
        let f = |k: usize| if let MV::Int(i) = v[k] { i } else { unreachable!() };
        assert!(-9999 <= f(0) && f(0) <= 9999);
        assert!(0 <= f(1) && f(1) <= 11);
        assert!(1 <= f(2) && f(2) <= 31);
        assert!(0 <= f(3) && f(3) <= 23);
        assert!(0 <= f(4) && f(4) <= 59);
        assert!(0 <= f(5) && f(5) <= 59);
        assert!(dt.year() as isize == f(0) && dt.month() as isize == f(1) + 1);
        assert!(dt.day() as isize == f(2) && dt.second() as isize == f(5));
    }
    kani::cover!(matches!(r, Some(Ok(_))));
    kani::cover!(matches!(r, Some(Err(_))));
    kani::cover!(r.is_none());
    core::mem::forget((r, v));
}

//@ tier: quick
//@ inst: V = MV
//@ funcs: time::array_to_datetime::<MV>
//@ bounds: fixed valid date fields, seconds any f64 (NaN, infinities, negative, fractional)
//@ asserts: no panic; NaN / infinite / out-of-range seconds are rejected (never answered with a different instant); accepted seconds s satisfy 0 <= s < 60 and the stored second is floor(s)
#[kani::proof]
#[kani::unwind(8)]
#[kani::stub(<jiff::Error as core::fmt::Display>::fmt, no_fmt)]
fn c20_bdt_float_seconds() {
    let s: f64 = kani::any();
    let v: [MV; 6] = [MV::Int(2000), MV::Int(0), MV::Int(1), MV::Int(0), MV::Int(0), MV::Float(s)];
    let r = array_to_datetime(&v);
    match &r {
        Some(Ok(dt)) => {
            assert!(s.is_finite());
            assert!(0.0 <= s && s < 60.0);
            assert!(dt.second() as f64 == s.floor());
        }
        Some(Err(_)) | None => assert!(!(0.0 <= s && s < 60.0)),
    }
    kani::cover!(matches!(r, Some(Ok(_))) && s > 59.5);
    kani::cover!(matches!(r, Some(Err(_))));
    core::mem::forget((r, v));
}

//@ tier: quick
//@ inst: V = MV
//@ funcs: time::float_to_micros::<MV>
//@ bounds: all f64 epochs (NaN, infinities, fractions, beyond the i64 range)
//@ asserts: NaN is rejected with an error (never converted to 0 = 1970-01-01); no panic; an accepted value is the saturating truncation of f * 10^6; +-infinity saturate to i64::MAX/MIN, which the range check of jiff::Timestamp::from_microsecond rejects (that check itself is outside: executing jiff's error path does not decide, 10 min / 8 GB)
#[kani::proof]
#[kani::unwind(8)]
fn c20_float_epoch_rejects_nan() {
    let f: f64 = kani::any();
    let r = float_to_micros(&MV::Float(f));
    match &r {
        Ok(us) => {
            assert!(!f.is_nan());
            if f == f64::INFINITY {
                assert!(*us == i64::MAX);
            }
            if f == f64::NEG_INFINITY {
                assert!(*us == i64::MIN);
            }
            if f.abs() < 9.0e12 {
                // inside the exactly representable region the result is trunc(f * 1e6)
                assert!(*us as f64 == (f * 1000000.0).trunc());
            }
        }
        Err(_) => assert!(f.is_nan()),
    }
    kani::cover!(r.is_ok() && f < 0.0 && f.fract() != 0.0);
    kani::cover!(r.is_err());
    core::mem::forget(r);
}
