// C05 — no panic / overflow in jaq-std's own integer and conversion kernels.
//@@ mount: jaq-std/src/lib.rs as verif_c05_lib
//@@ prop: C05
#![allow(dead_code, unused_imports)]
use super::*;
use crate::verif_mv::{no_format, MV};
use alloc::{vec, vec::Vec}; // for generated concrete-playback tests (no_std crate)

//@ tier: quick
//@ inst: V = MV (harness value type; integers are MV::Int(isize))
//@ funcs: jaq_std::implode::<MV>, ValTx::try_as_isize
//@ bounds: arrays of 1 element, the element any isize (code point, negated invalid byte, or neither)
//@ assume: error TEXT is not the subject: alloc::fmt::format stubbed to return an empty string
//@ asserts: Kani's built-in checks (arithmetic overflow incl. negation, slice/index bounds, unwrap) under dev-profile semantics; Ok exactly for -255..=0 (one byte) and Unicode scalar values
#[kani::proof]
#[kani::unwind(6)]
#[kani::stub(alloc::fmt::format, no_format)]
fn c05_implode_no_panic_1() {
    let i: isize = kani::any();
    let xs = [MV::Int(i)];
    let r = implode(&xs);
    let scalar = (0..=0x10FFFF).contains(&i) && !(0xD800..=0xDFFF).contains(&i);
    let byte = (-255..=0).contains(&i);
    match &r {
        Ok(v) => {
            assert!(scalar || byte);
            assert!(v.len() >= 1 && v.len() <= 4);
        }
        Err(_) => assert!(!scalar && !byte),
    }
    kani::cover!(i == isize::MIN);
    kani::cover!(r.is_ok() && i < 0);
    kani::cover!(r.is_ok() && i > 0xFFFF);
    core::mem::forget((r, xs));
}

//@ tier: quick
//@ inst: V = MV
//@ funcs: ValTx::round::<MV> with f64::floor, f64::round, f64::ceil
//@ bounds: all f64 (incl. NaN, infinities, beyond +-2^63), all three rounding modes
//@ assume: alloc::fmt::format stubbed (the `{f:.0}` rendering of floats beyond the machine range is not the subject)
//@ asserts: Kani's built-in checks only (no overflow, no failing cast/unwrap/unreachable) -- exactness of the rounded value is decided under C12 (c12_round_exact_or_big)
#[kani::proof]
#[kani::unwind(6)]
#[kani::stub(alloc::fmt::format, no_format)]
fn c05_round_no_panic() {
    let f: f64 = kani::any();
    let which: u8 = kani::any();
    kani::assume(which < 3);
    let r = match which {
        0 => MV::Float(f).round(f64::floor),
        1 => MV::Float(f).round(f64::round),
        _ => MV::Float(f).round(f64::ceil),
    };
    assert!(r.is_ok());
    kani::cover!(matches!(r, Ok(MV::Int(isize::MIN))));
    kani::cover!(matches!(r, Ok(MV::Big)));
    kani::cover!(matches!(r, Ok(MV::Float(_))));
    core::mem::forget(r);
}

