// C13 — `match` offsets count Unicode characters: the byte -> character offset mapping that every regex
// result (`match`, `scan`, `capture`, `split/2`, `splits`, `sub`, `gsub`) goes through, against an
// independent UTF-8 segmentation, for queries in ANY order (capture groups may start before a
// previously handled one, which makes `char_of_byte` start over -- the two-call sequence below is the
// multi-step history that the restart logic must survive).
//@@ mount: jaq-std/src/regex.rs as verif_c13_regex
//@@ prop: C13
#![allow(dead_code, unused_imports)]
use super::*;
use alloc::{vec, vec::Vec}; // for generated concrete-playback tests (no_std crate)

/// Independent UTF-8 segmentation after the Unicode standard (Table 3-7 "Well-Formed UTF-8 Byte
/// Sequences" and the "substitution of maximal subparts" practice): the length in bytes of the
/// character starting at `i`, where an ill-formed MAXIMAL SUBPART (the longest prefix of a well-formed
/// sequence, at least one byte) counts as one character.
fn m_char_len(s: &[u8], i: usize) -> usize {
    let b0 = s[i];
    let at = |k: usize| if i + k < s.len() { Some(s[i + k]) } else { None };
    let is_cont = |b: Option<u8>| matches!(b, Some(0x80..=0xBF));
    let second_ok = |lo: u8, hi: u8| matches!(at(1), Some(b) if lo <= b && b <= hi);
    match b0 {
        0x00..=0x7F => 1,
        0xC2..=0xDF => {
            if second_ok(0x80, 0xBF) {
                2
            } else {
                1
            }
        }
        0xE0..=0xEF => {
            let (lo, hi) = match b0 {
                0xE0 => (0xA0, 0xBF),
                0xED => (0x80, 0x9F),
                _ => (0x80, 0xBF),
            };
            if !second_ok(lo, hi) {
                1
            } else if is_cont(at(2)) {
                3
            } else {
                2
            }
        }
        0xF0..=0xF4 => {
            let (lo, hi) = match b0 {
                0xF0 => (0x90, 0xBF),
                0xF4 => (0x80, 0x8F),
                _ => (0x80, 0xBF),
            };
            if !second_ok(lo, hi) {
                1
            } else if !is_cont(at(2)) {
                2
            } else if is_cont(at(3)) {
                4
            } else {
                3
            }
        }
        _ => 1,
    }
}

/// Model: the character index of byte offset `o` in a string of `n` characters with boundaries
/// `bnd[0..n]` and `bnd[n] == len`; `None` when `o` is not a character boundary.
fn m_char_of_byte<const M: usize>(bnd: &[usize; M], n: usize, o: usize) -> Option<usize> {
    let mut k = 0;
    while k <= n {
        if bnd[k] == o {
            return Some(k);
        }
        k += 1;
    }
    None
}

fn char_of_byte_two_queries<const N: usize, const M: usize>(b: &[u8; N]) {
    // character boundaries by the independent model: bnd[k] = byte offset of character k, bnd[n] = N
    let mut bnd = [N; M];
    let (mut i, mut n) = (0usize, 0usize);
    while i < N {
        bnd[n] = i;
        i += m_char_len(b, i);
        n += 1;
    }
    let o1: usize = kani::any();
    let o2: usize = kani::any();
    kani::assume(o1 <= N + 1 && o2 <= N + 1);
    let mut bc = ByteChar::new(b);
    let r1 = bc.char_of_byte(o1);
    let r2 = bc.char_of_byte(o2);
    assert!(r1 == m_char_of_byte(&bnd, n, o1));
    assert!(r2 == m_char_of_byte(&bnd, n, o2));
    kani::cover!(o2 < o1 && r1.is_some() && r2.is_some()); // restart path with two valid offsets
    kani::cover!(n < N && r1.is_none() && o1 < N); // offset inside a multi-byte character
    kani::cover!(o1 == N && r1 == Some(n) && n >= 1 && b[0] >= 0x80);
    core::mem::forget(bc);
}

//@ tier: quick
//@ funcs: regex::ByteChar::new, regex::ByteChar::chars, regex::ByteChar::char_of_byte, bstr::ByteSlice::char_indices
//@ bounds: every byte string of length 2 (all 2^16: 1- and 2-byte characters, ill-formed sequences); two consecutive queries with any byte offsets 0..=3 in any order (increasing, equal, decreasing -> restart, past the end)
//@ asserts: each query returns Some(k) exactly when the offset is the k-th character boundary of an independent UTF-8 segmentation (Unicode Table 3-7; an ill-formed maximal subpart is one character; the end of the string is boundary n) and None otherwise -- independent of the query that came before it
#[kani::proof]
#[kani::unwind(5)]
fn c13_char_of_byte_counts_characters_2_bytes() {
    let b: [u8; 2] = kani::any();
    char_of_byte_two_queries::<2, 3>(&b);
}

//@ tier: thorough
//@ funcs: regex::ByteChar::new, regex::ByteChar::chars, regex::ByteChar::char_of_byte, bstr::ByteSlice::char_indices
//@ bounds: every byte string of length 3 (all 2^24: 1-, 2- and 3-byte characters, ill-formed sequences); two consecutive queries with any byte offsets 0..=4 in any order
//@ asserts: as c13_char_of_byte_counts_characters_2_bytes
#[kani::proof]
#[kani::unwind(6)]
fn c13_char_of_byte_counts_characters_3_bytes() {
    let b: [u8; 3] = kani::any();
    char_of_byte_two_queries::<3, 4>(&b);
}

//@ tier: thorough
//@ funcs: regex::ByteChar::new, regex::ByteChar::chars, regex::ByteChar::char_of_byte, bstr::ByteSlice::char_indices
//@ bounds: every byte string of length 4 (all 2^32, includes 4-byte characters and their truncations); two consecutive queries with any byte offsets 0..=5 in any order
//@ asserts: as c13_char_of_byte_counts_characters_2_bytes
#[kani::proof]
#[kani::unwind(7)]
fn c13_char_of_byte_counts_characters_4_bytes() {
    let b: [u8; 4] = kani::any();
    char_of_byte_two_queries::<4, 5>(&b);
}

//@ tier: quick
//@ funcs: regex::ByteChar::new, regex::ByteChar::chars, regex::ByteChar::char_of_byte, bstr::ByteSlice::char_indices
//@ bounds: every byte string of length 2; ONE query with any byte offset 0..=3 on a fresh mapping
//@ asserts: the query returns Some(k) exactly when the offset is the k-th character boundary of the independent UTF-8 segmentation, None otherwise
#[kani::proof]
#[kani::unwind(5)]
fn c13_char_of_byte_single_query_2_bytes() {
    let b: [u8; 2] = kani::any();
    let mut bnd = [2usize; 3];
    let (mut i, mut n) = (0usize, 0usize);
    while i < 2 {
        bnd[n] = i;
        i += m_char_len(&b, i);
        n += 1;
    }
    let o1: usize = kani::any();
    kani::assume(o1 <= 3);
    let mut bc = ByteChar::new(&b);
    let r1 = bc.char_of_byte(o1);
    assert!(r1 == m_char_of_byte(&bnd, n, o1));
    kani::cover!(n == 1 && o1 == 1 && r1.is_none());
    kani::cover!(n == 2 && r1 == Some(2));
    core::mem::forget(bc);
}
