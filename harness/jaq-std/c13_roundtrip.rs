// C13 — `explode | implode` is the identity on every short byte string (valid or invalid UTF-8).
//@@ mount: jaq-std/src/lib.rs as verif_c13_roundtrip
//@@ prop: C13
#![allow(dead_code, unused_imports)]
use super::*;
use crate::verif_mv::{no_format, MV};
use alloc::{vec, vec::Vec}; // for generated concrete-playback tests (no_std crate)

/// Item by item: every number `explode` yields is turned back by `implode` into exactly the bytes it
/// came from, in order, and together they cover the whole string. (`implode` handles its elements
/// independently -- one push/extend per element -- so this is `explode | implode == .`.)
fn roundtrip<const N: usize>(s: &[u8; N]) {
    let mut it = Explode { s, invalid: [].iter() };
    let mut pos = 0usize;
    let mut k = 0;
    while k < N {
        if let Some(item) = it.next() {
            let code: isize = match item {
                Ok(c) => c as u32 as isize,
                Err(b) => -(b as isize),
            };
            let one = [MV::Int(code)];
            match implode(&one) {
                Ok(v) => {
                    assert!(v.len() >= 1 && pos + v.len() <= N);
                    assert!(v[0] == s[pos]);
                    if v.len() > 1 {
                        assert!(v[1] == s[pos + 1]);
                    }
                    if v.len() > 2 {
                        assert!(v[2] == s[pos + 2]);
                    }
                    pos += v.len();
                    core::mem::forget(v);
                }
                Err(_) => panic!("implode rejected a number produced by explode"),
            }
            core::mem::forget(one);
        }
        k += 1;
    }
    assert!(it.next().is_none());
    assert!(pos == N);
}

//@ tier: attempt
//@ inst: V = MV
//@ funcs: jaq_std::Explode::next, jaq_std::implode::<MV>, bstr::decode_utf8, char::encode_utf8
//@ bounds: every byte string of length 3 (all 2^24, symbolic): ASCII, 2- and 3-byte characters, truncated and invalid sequences, lone continuation bytes
//@ assume: alloc::fmt::format stubbed (error text is not the subject); implode treats its elements independently (one push/extend per element)
//@ asserts: each number explode yields is imploded back to exactly the bytes it was decoded from (invalid bytes via their negative code), in order, covering the whole string: `explode | implode` returns the original bytes
#[kani::proof]
#[kani::unwind(8)]
#[kani::stub(alloc::fmt::format, no_format)]
fn c13_explode_implode_identity_3() {
    let s: [u8; 3] = kani::any();
    roundtrip(&s);
    kani::cover!(s[0] == 0xE2 && s[1] == 0x82 && s[2] == 0xAC);
    kani::cover!(s[0] == 0xC3 && s[1] == 0xA4 && s[2] == b'x');
    kani::cover!(s[0] == 0xFF && s[1] == 0x80);
    kani::cover!(s[0] == 0xE2 && s[1] == 0x82 && s[2] == b'x');
}

//@ tier: attempt
//@ inst: V = MV
//@ funcs: jaq_std::Explode::next, jaq_std::implode::<MV>, bstr::decode_utf8, char::encode_utf8
//@ bounds: every byte string of length 2 (all 65536, symbolic): ASCII, 2-byte characters, truncated and invalid sequences
//@ assume: alloc::fmt::format stubbed; implode treats its elements independently
//@ asserts: as c13_explode_implode_identity_3, on 2-byte strings
#[kani::proof]
#[kani::unwind(8)]
#[kani::stub(alloc::fmt::format, no_format)]
fn c13_explode_implode_identity_2() {
    let s: [u8; 2] = kani::any();
    roundtrip(&s);
    kani::cover!(s[0] == 0xC3 && s[1] == 0xA4);
    kani::cover!(s[0] == 0xFF && s[1] == 0x80);
    kani::cover!(s[0] == b'a' && s[1] == 0xC3);
}

// ---------------------------------------------------------------------------------------------
// Compositional version: an INDEPENDENT strict UTF-8 codec written here (RFC 3629: no overlongs, no
// surrogates, <= U+10FFFF; an invalid byte is one item) against which both directions are checked.
//   A  implode([x])  == m_encode(x)         for every isize x        (c13_implode_is_utf8_encoder)
//   B  Explode(s)    == m_decode(s)         for every 3-byte s       (c13_explode_is_utf8_decoder_3)
//   C  m_encode(m_decode(s)) == s           for every 3-byte s       (c13_model_roundtrip_3)
// A, B and C give `explode | implode == .` on every 3-byte string (implode works element by element).
// ---------------------------------------------------------------------------------------------

fn no_tfie(_e: &core::num::TryFromIntError, _f: &mut core::fmt::Formatter<'_>) -> core::fmt::Result {
    Ok(())
}

/// -> (item, bytes consumed); item >= 0: scalar value, item < 0: minus the invalid byte
fn m_decode_at(s: &[u8], i: usize) -> (isize, usize) {
    let b0 = s[i];
    let cont = |k: usize| i + k < s.len() && (s[i + k] & 0xC0) == 0x80;
    if b0 < 0x80 {
        return (b0 as isize, 1);
    }
    if (0xC2..=0xDF).contains(&b0) && cont(1) {
        return ((((b0 & 0x1F) as isize) << 6) | (s[i + 1] & 0x3F) as isize, 2);
    }
    if (0xE0..=0xEF).contains(&b0) && cont(1) && cont(2) {
        let c = (((b0 & 0x0F) as isize) << 12) | (((s[i + 1] & 0x3F) as isize) << 6) | (s[i + 2] & 0x3F) as isize;
        if c >= 0x800 && !(0xD800..=0xDFFF).contains(&c) {
            return (c, 3);
        }
    }
    if (0xF0..=0xF4).contains(&b0) && cont(1) && cont(2) && cont(3) {
        let c = (((b0 & 0x07) as isize) << 18)
            | (((s[i + 1] & 0x3F) as isize) << 12)
            | (((s[i + 2] & 0x3F) as isize) << 6)
            | (s[i + 3] & 0x3F) as isize;
        if (0x10000..=0x10FFFF).contains(&c) {
            return (c, 4);
        }
    }
    (-(b0 as isize), 1)
}
/// -> (bytes, length), or length 0 if x is neither a scalar value nor a negated byte
fn m_encode(x: isize) -> ([u8; 4], usize) {
    if (-255..=0).contains(&x) {
        return ([(-x) as u8, 0, 0, 0], 1);
    }
    if x < 0x80 {
        if x < 0 {
            return ([0; 4], 0);
        }
        return ([x as u8, 0, 0, 0], 1);
    }
    if x < 0x800 {
        return ([0xC0 | (x >> 6) as u8, 0x80 | (x & 0x3F) as u8, 0, 0], 2);
    }
    if x < 0x10000 {
        if (0xD800..=0xDFFF).contains(&x) {
            return ([0; 4], 0);
        }
        return ([0xE0 | (x >> 12) as u8, 0x80 | ((x >> 6) & 0x3F) as u8, 0x80 | (x & 0x3F) as u8, 0], 3);
    }
    if x <= 0x10FFFF {
        return ([0xF0 | (x >> 18) as u8, 0x80 | ((x >> 12) & 0x3F) as u8, 0x80 | ((x >> 6) & 0x3F) as u8, 0x80 | (x & 0x3F) as u8], 4);
    }
    ([0; 4], 0)
}

//@ tier: quick
//@ inst: V = MV
//@ funcs: jaq_std::implode::<MV>, char::from_u32, char::encode_utf8
//@ bounds: one-element arrays, the element any isize
//@ assume: alloc::fmt::format stubbed (error text is not the subject)
//@ asserts: implode([x]) is exactly the independent model's encoding: the UTF-8 bytes of the scalar value x, the single byte -x for -255..=0 (x = 0 is the NUL character), and an error for everything else (surrogates, > U+10FFFF, < -255)
#[kani::proof]
#[kani::unwind(8)]
#[kani::stub(alloc::fmt::format, no_format)]
fn c13_implode_is_utf8_encoder() {
    let x: isize = kani::any();
    let one = [MV::Int(x)];
    let r = implode(&one);
    let (want, n) = m_encode(x);
    match &r {
        Ok(v) => {
            assert!(n > 0 && v.len() == n);
            let mut k = 0;
            while k < 4 {
                if k < n {
                    assert!(v[k] == want[k]);
                }
                k += 1;
            }
        }
        Err(_) => assert!(n == 0),
    }
    kani::cover!(n == 4);
    kani::cover!(n == 3);
    kani::cover!(n == 1 && x < 0);
    kani::cover!(n == 0 && x > 0);
    core::mem::forget((r, one));
}

//@ tier: quick
//@ funcs: jaq_std::Explode::next, bstr::decode_utf8 (the mapping closure of `explode` is decided in c13_explode_number_mapping*)
//@ bounds: every byte string of length 3 (all 2^24, symbolic)
//@ asserts: explode yields exactly what the independent strict UTF-8 decoder yields: scalar values for well-formed sequences, and every byte of an ill-formed sequence individually as a negative number -- in the same order, nothing dropped
#[kani::proof]
#[kani::unwind(8)]
fn c13_explode_is_utf8_decoder_3() {
    let s: [u8; 3] = kani::any();
    let mut it = Explode { s: &s, invalid: [].iter() };
    let mut i = 0usize;
    let mut k = 0;
    while k < 3 {
        let o = it.next();
        if i < 3 {
            let (want, n) = m_decode_at(&s, i);
            let got: isize = match o {
                Some(Ok(c)) => c as u32 as isize,
                Some(Err(b)) => -(b as isize),
                None => isize::MIN,
            };
            assert!(got == want);
            i += n;
        } else {
            assert!(o.is_none());
        }
        k += 1;
    }
    assert!(it.next().is_none() && i == 3);
    kani::cover!(s[0] == 0xE2 && s[1] == 0x82 && s[2] == 0xAC);
    kani::cover!(s[0] == 0xE2 && s[1] == 0x82 && s[2] == b'x');
    kani::cover!(s[0] == 0xED && s[1] == 0xA0);
    kani::cover!(s[0] == 0xC0 && s[1] == 0x80);
}

//@ tier: quick
//@ funcs: (harness-side model only) m_decode_at, m_encode
//@ bounds: every byte string of length 3
//@ asserts: the independent codec round-trips: encoding what it decodes reproduces the bytes -- the glue between c13_explode_is_utf8_decoder_3 and c13_implode_is_utf8_encoder
#[kani::proof]
#[kani::unwind(8)]
fn c13_model_roundtrip_3() {
    let s: [u8; 3] = kani::any();
    let mut i = 0usize;
    let mut k = 0;
    while k < 3 {
        if i < 3 {
            let (item, n) = m_decode_at(&s, i);
            let (bytes, m) = m_encode(item);
            assert!(m == n && i + n <= 3);
            let mut j = 0;
            while j < 3 {
                if j < n {
                    assert!(bytes[j] == s[i + j]);
                }
                j += 1;
            }
            i += n;
        }
        k += 1;
    }
    assert!(i == 3);
    kani::cover!(s[0] == 0xE2 && s[1] == 0x82 && s[2] == 0xAC);
    kani::cover!(s[0] == 0xFF);
}

//@ tier: quick
//@ funcs: jaq_std::Explode::next, bstr::decode_utf8 (the mapping closure of `explode` is decided in c13_explode_number_mapping*)
//@ bounds: every byte string of length 4 (all 2^32, symbolic): includes every 4-byte character, overlong and out-of-range forms
//@ asserts: as c13_explode_is_utf8_decoder_3 on 4-byte strings
#[kani::proof]
#[kani::unwind(8)]
fn c13_explode_is_utf8_decoder_4() {
    let s: [u8; 4] = kani::any();
    let mut it = Explode { s: &s, invalid: [].iter() };
    let mut i = 0usize;
    let mut k = 0;
    while k < 4 {
        let o = it.next();
        if i < 4 {
            let (want, n) = m_decode_at(&s, i);
            let got: isize = match o {
                Some(Ok(c)) => c as u32 as isize,
                Some(Err(b)) => -(b as isize),
                None => isize::MIN,
            };
            assert!(got == want);
            i += n;
        } else {
            assert!(o.is_none());
        }
        k += 1;
    }
    assert!(it.next().is_none() && i == 4);
    kani::cover!(s[0] == 0xF0 && s[1] == 0x9F && s[2] == 0x98 && s[3] == 0x80);
    kani::cover!(s[0] == 0xF4 && s[1] == 0x90);
    kani::cover!(s[0] == 0xF0 && s[1] == 0x80);
    kani::cover!(s[0] == b'a' && s[1] == 0xE2 && s[2] == 0x82 && s[3] == 0xAC);
}

//@ tier: quick
//@ funcs: (harness-side model only) m_decode_at, m_encode
//@ bounds: every byte string of length 4
//@ asserts: the independent codec round-trips on 4-byte strings
#[kani::proof]
#[kani::unwind(8)]
fn c13_model_roundtrip_4() {
    let s: [u8; 4] = kani::any();
    let mut i = 0usize;
    let mut k = 0;
    while k < 4 {
        if i < 4 {
            let (item, n) = m_decode_at(&s, i);
            let (bytes, m) = m_encode(item);
            assert!(m == n && i + n <= 4);
            let mut j = 0;
            while j < 4 {
                if j < n {
                    assert!(bytes[j] == s[i + j]);
                }
                j += 1;
            }
            i += n;
        }
        k += 1;
    }
    assert!(i == 4);
    kani::cover!(s[0] == 0xF0 && s[1] == 0x9F && s[2] == 0x98 && s[3] == 0x80);
    kani::cover!(s[0] == 0xFF);
}

//@ tier: quick
//@ inst: V = MV
//@ funcs: jaq_std::explode::<MV> (the mapping from decoded items to numbers), jaq_std::Explode::next
//@ bounds: every 1-byte string (the mapping closure is the subject; the decoder itself is decided on 3- and 4-byte strings)
//@ assume: <TryFromIntError as Display>::fmt stubbed (only reached where isize is narrower than u32)
//@ asserts: an ASCII byte becomes its code point as a non-negative machine integer, an invalid byte b becomes exactly -b (sign and magnitude), one number per byte, then the stream ends
#[kani::proof]
#[kani::unwind(6)]
#[kani::stub(<core::num::TryFromIntError as core::fmt::Display>::fmt, no_tfie)]
fn c13_explode_number_mapping() {
    let s: [u8; 1] = kani::any();
    let mut it = explode::<MV>(&s);
    let o = it.next();
    let want = if s[0] < 0x80 { s[0] as isize } else { -(s[0] as isize) };
    assert!(matches!(&o, Some(Ok(MV::Int(c))) if *c == want));
    let e = it.next();
    assert!(e.is_none());
    kani::cover!(s[0] == 0xFF);
    kani::cover!(s[0] == b'a');
    core::mem::forget((o, e));
}

//@ tier: quick
//@ inst: V = MV
//@ funcs: jaq_std::explode::<MV> (the mapping closure on multi-byte characters)
//@ bounds: the concrete strings U+00E4, U+20AC, U+1F600, U+10FFFF (one character each: 2, 3, 4, 4 bytes)
//@ asserts: explode yields the full code point of a 2-, 3- and 4-byte character (no truncation to 16 bits) as one non-negative number
#[kani::proof]
#[kani::unwind(6)]
#[kani::stub(<core::num::TryFromIntError as core::fmt::Display>::fmt, no_tfie)]
fn c13_explode_number_mapping_wide() {
    fn one(s: &[u8], want: isize) {
        let mut it = explode::<MV>(s);
        let o = it.next();
        assert!(matches!(&o, Some(Ok(MV::Int(c))) if *c == want));
        let e = it.next();
        assert!(e.is_none());
        core::mem::forget((o, e));
    }
    one(&[0xC3, 0xA4], 0xE4);
    one(&[0xE2, 0x82, 0xAC], 0x20AC);
    one(&[0xF0, 0x9F, 0x98, 0x80], 0x1F600);
    one(&[0xF4, 0x8F, 0xBF, 0xBF], 0x10FFFF);
    kani::cover!(true);
}
