// Minimal value type `MV` at which the generic jaq-std code is instantiated in harnesses.
// It is NOT a model of jaq's code: the code under test is the real generic function, monomorphised
// at this type. What this instantiation does not cover is `jaq_json::Val`'s own trait impls
// (those have harnesses in jaq-json).
//@@ mount: jaq-std/src/lib.rs as verif_mv
//@@ support
#![allow(dead_code, unused_imports)]
use alloc::string::String;
use alloc::vec::Vec;
use alloc::boxed::Box;
use core::cmp::Ordering;
use jaq_core::box_iter::{box_once, BoxIter};
use jaq_core::path::Opt;
use jaq_core::val::Range;
use jaq_core::{Error, Exn, ValR, ValX};

#[derive(Clone, Debug)]
pub(crate) enum MV {
    Null,
    Bool(bool),
    Int(isize),
    Float(f64),
    /// non-integer, non-float number surrogate: `is_int` true but `as_isize` None (a "big integer")
    Big,
    Str(Vec<u8>),
    Arr(Vec<MV>),
}

impl MV {
    fn rank(&self) -> u8 {
        match self {
            MV::Null => 0,
            MV::Bool(_) => 1,
            MV::Int(_) | MV::Float(_) | MV::Big => 2,
            MV::Str(_) => 3,
            MV::Arr(_) => 4,
        }
    }
}

impl PartialEq for MV {
    fn eq(&self, o: &Self) -> bool {
        self.cmp(o) == Ordering::Equal
    }
}
impl Eq for MV {}
impl PartialOrd for MV {
    fn partial_cmp(&self, o: &Self) -> Option<Ordering> {
        Some(self.cmp(o))
    }
}
impl Ord for MV {
    fn cmp(&self, o: &Self) -> Ordering {
        match (self, o) {
            (MV::Bool(a), MV::Bool(b)) => a.cmp(b),
            (MV::Int(a), MV::Int(b)) => a.cmp(b),
            (MV::Float(a), MV::Float(b)) => a.total_cmp(b),
            (MV::Str(a), MV::Str(b)) => a.cmp(b),
            (MV::Arr(a), MV::Arr(b)) => a.cmp(b),
            _ => self.rank().cmp(&o.rank()),
        }
    }
}

impl core::fmt::Display for MV {
    fn fmt(&self, _f: &mut core::fmt::Formatter) -> core::fmt::Result {
        Ok(())
    }
}
impl From<bool> for MV {
    fn from(b: bool) -> Self {
        MV::Bool(b)
    }
}
impl From<isize> for MV {
    fn from(i: isize) -> Self {
        MV::Int(i)
    }
}
impl From<usize> for MV {
    fn from(i: usize) -> Self {
        MV::Int(i as isize)
    }
}
impl From<f64> for MV {
    fn from(f: f64) -> Self {
        MV::Float(f)
    }
}
impl From<String> for MV {
    fn from(s: String) -> Self {
        MV::Str(s.into_bytes())
    }
}
impl From<Range<MV>> for MV {
    fn from(_r: Range<MV>) -> Self {
        MV::Null
    }
}
impl FromIterator<MV> for MV {
    fn from_iter<T: IntoIterator<Item = MV>>(iter: T) -> Self {
        MV::Arr(iter.into_iter().collect())
    }
}
macro_rules! no_op {
    ($tr:ident, $f:ident) => {
        impl core::ops::$tr for MV {
            type Output = ValR<MV>;
            fn $f(self, _r: Self) -> ValR<MV> {
                Err(Error::new(self))
            }
        }
    };
}
no_op!(Add, add);
no_op!(Sub, sub);
no_op!(Mul, mul);
no_op!(Div, div);
no_op!(Rem, rem);
impl core::ops::Neg for MV {
    type Output = ValR<MV>;
    fn neg(self) -> ValR<MV> {
        Err(Error::new(self))
    }
}

impl jaq_core::ValT for MV {
    fn from_num(_n: &str) -> ValR<Self> {
        Ok(MV::Big)
    }
    fn from_map<I: IntoIterator<Item = (Self, Self)>>(_iter: I) -> ValR<Self> {
        Ok(MV::Null)
    }
    fn key_values(self) -> BoxIter<'static, ValR<(Self, Self), Self>> {
        box_once(Err(Error::new(self)))
    }
    fn values(self) -> Box<dyn Iterator<Item = ValR<Self>>> {
        box_once(Err(Error::new(self)))
    }
    fn index(self, _index: &Self) -> ValR<Self> {
        Err(Error::new(self))
    }
    fn range(self, _range: Range<&Self>) -> ValR<Self> {
        Err(Error::new(self))
    }
    fn map_values<'a, I: Iterator<Item = ValX<'a, Self>>>(self, _opt: Opt, _f: impl Fn(Self) -> I) -> ValX<'a, Self> {
        Ok(self)
    }
    fn map_index<'a, I: Iterator<Item = ValX<'a, Self>>>(self, _index: &Self, _opt: Opt, _f: impl Fn(Self) -> I) -> ValX<'a, Self> {
        Ok(self)
    }
    fn map_range<'a, I: Iterator<Item = ValX<'a, Self>>>(self, _range: Range<&Self>, _opt: Opt, _f: impl Fn(Self) -> I) -> ValX<'a, Self> {
        Ok(self)
    }
    fn as_bool(&self) -> bool {
        !matches!(self, MV::Null | MV::Bool(false))
    }
    fn into_string(self) -> Self {
        self
    }
}

impl crate::ValT for MV {
    fn into_seq<S: FromIterator<Self>>(self) -> Result<S, Self> {
        match self {
            MV::Arr(a) => Ok(a.into_iter().collect()),
            _ => Err(self),
        }
    }
    fn is_int(&self) -> bool {
        matches!(self, MV::Int(_) | MV::Big)
    }
    fn as_isize(&self) -> Option<isize> {
        match self {
            MV::Int(i) => Some(*i),
            _ => None,
        }
    }
    fn as_f64(&self) -> Option<f64> {
        match self {
            MV::Int(i) => Some(*i as f64),
            MV::Float(f) => Some(*f),
            MV::Big => Some(f64::INFINITY),
            _ => None,
        }
    }
    fn is_utf8_str(&self) -> bool {
        matches!(self, MV::Str(_))
    }
    fn as_bytes(&self) -> Option<&[u8]> {
        match self {
            MV::Str(b) => Some(b),
            _ => None,
        }
    }
    fn as_sub_str(&self, sub: &[u8]) -> Self {
        MV::Str(sub.to_vec())
    }
    fn from_utf8_bytes(b: impl AsRef<[u8]> + Send + 'static) -> Self {
        MV::Str(b.as_ref().to_vec())
    }
}

/// Stub for `alloc::fmt::format`: error TEXT is not the subject of the harnesses that use it.
pub(crate) fn no_format(_args: core::fmt::Arguments<'_>) -> String {
    String::new()
}
