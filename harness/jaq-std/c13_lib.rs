// C13 — explode / implode invert each other on every byte string (valid or invalid UTF-8).
//@@ mount: jaq-std/src/lib.rs as verif_c13_lib
//@@ prop: C13
#![allow(dead_code, unused_imports)]
use super::*;
use crate::verif_mv::{no_format, MV};
use alloc::{vec, vec::Vec}; // for generated concrete-playback tests (no_std crate)

fn roundtrip(s: &[u8]) {
    let mut it = Explode { s, invalid: [].iter() };
    // explode, element by element (the real Explode iterator and the real code-point mapping)
    let mut xs: [MV; 4] = [MV::Null, MV::Null, MV::Null, MV::Null];
    let mut n = 0;
    let mut i = 0;
    while i < 5 {
        match it.next() {
            Some(Ok(c)) => {
                assert!(n < 4);
                xs[n] = MV::Int(c as u32 as isize);
                n += 1;
            }
            Some(Err(b)) => {
                assert!(n < 4);
                xs[n] = MV::Int(-(b as isize));
                n += 1;
            }
            None => {}
        }
        i += 1;
    }
    assert!(it.next().is_none());
    let out = implode(&xs[..n]);
    match &out {
        Ok(v) => {
            assert!(v.len() == s.len());
            let mut k = 0;
            while k < 4 {
                if k < s.len() {
                    assert!(v[k] == s[k]);
                }
                k += 1;
            }
        }
        Err(_) => panic!("implode rejected the output of explode"),
    }
    core::mem::forget(out);
}

//@ tier: attempt
//@ timeout: 2400
//@ inst: V = MV
//@ funcs: jaq_std::Explode::next, jaq_std::implode::<MV>, bstr::decode_utf8
//@ bounds: every byte string of length 2 (all 65536, symbolic), valid or invalid UTF-8
//@ assume: alloc::fmt::format stubbed (error text is not the subject)
//@ asserts: `explode | implode` returns the original bytes exactly; explode yields at most one number per byte and never more than the string's length; invalid bytes become negative numbers and come back as the same bytes
#[kani::proof]
#[kani::unwind(8)]
#[kani::stub(alloc::fmt::format, no_format)]
fn c13_explode_implode_roundtrip_2() {
    let s: [u8; 2] = kani::any();
    roundtrip(&s);
    kani::cover!(s[0] == 0xC3 && s[1] == 0xA4);
    kani::cover!(s[0] == 0xFF);
    kani::cover!(s[0] == b'a' && s[1] == 0x80);
}
