// C03 — jaq's own iterators must report LAWFUL size hints: the single-output fast path
// (`next_if_one`) trusts an upper bound of 1 and would otherwise drop outputs.
//@@ mount: jaq-std/src/lib.rs as verif_c03_explode
//@@ prop: C03
#![allow(dead_code, unused_imports)]
use super::*;
use alloc::{vec, vec::Vec}; // for generated concrete-playback tests (no_std crate)

fn lawful(s: &[u8]) {
    let mut it = Explode { s, invalid: [].iter() };
    // the hint must be lawful initially and after every step
    let mut produced = 0usize;
    let mut hints: [(usize, Option<usize>); 4] = [(0, None); 4];
    let mut k = 0;
    while k < 4 {
        hints[k] = it.size_hint();
        if it.next().is_some() {
            produced += 1;
        }
        k += 1;
    }
    assert!(it.next().is_none());
    // remaining count at step k is produced - (items produced before step k); items come one per step
    // until the end, so "remaining at step k" = produced - min(k, produced)
    let mut j = 0;
    while j < 4 {
        let rem = produced - core::cmp::min(j, produced);
        let (lo, hi) = hints[j];
        assert!(lo <= rem);
        assert!(hi.map_or(true, |h| rem <= h));
        j += 1;
    }
    assert!(produced <= s.len());
    kani::cover!(produced == 1 && s.len() == 3);
    kani::cover!(produced == 3);
}

//@ tier: quick
//@ funcs: jaq_std::Explode::next, jaq_std::Explode::size_hint, bstr::decode_utf8
//@ bounds: every byte string of length 3 (valid or invalid UTF-8), the hint read before each of 4 steps
//@ asserts: Explode's size_hint is lawful at every step: lower <= number of outputs still to come <= upper -- so the single-output fast path never drops or duplicates a code point; at most one output per byte
#[kani::proof]
#[kani::unwind(8)]
fn c03_explode_size_hint_lawful_3() {
    let s: [u8; 3] = kani::any();
    lawful(&s);
}
