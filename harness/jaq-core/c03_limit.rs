// C03 — laziness of the native `limit`, `first`, `last`: the same harness bodies as
// c11_limit_takes_n_on_demand / c11_first_last (see harness/jaq-core/c11_limit.rs for how the real
// macros are driven without the interpreter), registered under C03 because "limit($n; f) never
// computes the ($n+1)-th output of f" and "first(f) computes one output" are that property's clauses.
//@@ mount: jaq-core/src/funs.rs as verif_c03_limit
//@@ prop: C03
#![allow(dead_code, unused_imports)]
use super::*;
use crate::verif_mv::MV;
use crate::verif_support::Src;
use crate::Error;
use alloc::{vec, vec::Vec}; // for generated concrete-playback tests (no_std crate)
use core::sync::atomic::{AtomicUsize, Ordering::Relaxed};

type R = Result<u8, Error<MV>>;

/// items >= 0x80 stand for errors raised inside the stream
fn m_item(x: u8) -> R {
    if x >= 0x80 {
        Err(Error::new(MV::Int(x as isize)))
    } else {
        Ok(x)
    }
}
fn same_item(o: &Option<R>, x: u8) -> bool {
    match o {
        Some(Ok(y)) => x < 0x80 && *y == x,
        Some(Err(e)) => x >= 0x80 && *e == Error::new(MV::Int(x as isize)),
        None => false,
    }
}

struct SrcR(Src);
impl Iterator for SrcR {
    type Item = R;
    fn next(&mut self) -> Option<R> {
        self.0.next().map(m_item)
    }
}
/// number of times the filter argument has been started (`f.run(..)` called)
static STARTED: AtomicUsize = AtomicUsize::new(0);
struct FakeF(Src);
impl FakeF {
    fn run(self, _cv: ((), MV)) -> SrcR {
        STARTED.fetch_add(1, Relaxed);
        SrcR(self.0)
    }
}
struct FakeVars {
    f: Option<FakeF>,
    n: MV,
}
impl FakeVars {
    fn pop_fun(&mut self) -> (FakeF, ()) {
        (self.f.take().unwrap(), ())
    }
    fn pop_var(&mut self) -> MV {
        self.n.clone()
    }
}

fn real_limit() -> impl FnOnce((FakeVars, MV)) -> BoxIter<'static, R> {
    limit!(run)
}
fn real_first() -> impl FnOnce((FakeVars, MV)) -> BoxIter<'static, R> {
    first!(run)
}
fn real_last() -> impl FnOnce((FakeVars, MV)) -> BoxIter<'static, R> {
    last!(run)
}

//@ tier: quick
//@ inst: f = counting source of <= 3 items (u8; values >= 0x80 are errors), V = MV
//@ funcs: funs::limit! (run instance), funs::while_gtz!
//@ bounds: every count $n in isize; every stream of 0..=3 items, each an output or an error; 5 pulls of the result; unwind 6
//@ assume: none
//@ asserts: limit($n; f) delivers exactly the first min($n, length) items of f in order (errors are items) and then ends; $n <= 0 delivers nothing and never starts f; after the k-th output exactly k items of f have been pulled (the ($n+1)-th is never computed), and pulls after the end do not touch f
//@ timeout: 900
#[kani::proof]
#[kani::unwind(6)]
fn c03_limit_pulls_once_per_output() {
    let n: isize = kani::any();
    let s = Src::any_exact(3);
    let (given, calls, len, items) = (s.given_handle(), s.calls_handle(), s.len(), s.items());
    let cv = (FakeVars { f: Some(FakeF(s)), n: MV::Int(n) }, MV::Null);
    let s0 = STARTED.load(Relaxed);
    let mut it = real_limit()(cv);
    // a non-positive count never starts f (starting a filter may already consume an input)
    assert!(n > 0 || STARTED.load(Relaxed) == s0);
    let want = if n <= 0 { 0 } else if (n as usize) < len { n as usize } else { len };
    let mut k = 0;
    while k < 5 {
        let o = it.next();
        if k < want {
            assert!(same_item(&o, items[k]));
            assert!(given.get() == k + 1);
            assert!(calls.get() == k + 1);
        } else {
            assert!(o.is_none());
            assert!(given.get() == want);
            // the source is asked again only if it ended before the count did
            assert!(calls.get() <= want + (k + 1 - want));
            if n <= 0 || (n as usize) <= len {
                assert!(calls.get() == want);
            }
        }
        core::mem::forget(o);
        k += 1;
    }
    kani::cover!(n == 2 && len == 3);
    kani::cover!(n == 3 && len == 1);
    kani::cover!(n < 0 && len == 2);
    kani::cover!(n == 1 && len == 2 && items[0] >= 0x80);
    core::mem::forget(it);
}

//@ tier: quick
//@ inst: f = counting source of <= 3 items (u8; values >= 0x80 are errors), V = MV
//@ funcs: funs::first! (run instance), funs::last! (run instance), funs::once_or_empty
//@ bounds: every stream of 0..=3 items, each an output or an error; unwind 6
//@ assume: none
//@ asserts: first(f) is the first item of f, if any, and pulls f exactly once; last(f) is the last item if f has no error, nothing for the empty stream, and otherwise the FIRST error of f (the stream is not read beyond it)
//@ timeout: 900
#[kani::proof]
#[kani::unwind(6)]
fn c03_first_last_stop_early() {
    let s = Src::any_exact(3);
    let s2 = s.clone();
    let (len, items) = (s.len(), s.items());
    let calls = s.calls_handle();
    let base = calls.get();
    let mut it = real_first()((FakeVars { f: Some(FakeF(s)), n: MV::Null }, MV::Null));
    let o = it.next();
    if len == 0 {
        assert!(o.is_none());
    } else {
        assert!(same_item(&o, items[0]));
    }
    assert!(calls.get() == base + 1);
    let o2 = it.next();
    assert!(o2.is_none());
    assert!(calls.get() == base + 1);
    core::mem::forget((o, o2));

    let before = calls.get();
    let mut lt = real_last()((FakeVars { f: Some(FakeF(s2)), n: MV::Null }, MV::Null));
    let l = lt.next();
    // position of the first error, if any
    let mut e = len;
    let mut i = 0;
    while i < len {
        if items[i] >= 0x80 && e == len {
            e = i;
        }
        i += 1;
    }
    if e < len {
        assert!(same_item(&l, items[e]));
        assert!(calls.get() == before + e + 1);
    } else if len == 0 {
        assert!(l.is_none());
    } else {
        assert!(same_item(&l, items[len - 1]));
    }
    let l2 = lt.next();
    assert!(l2.is_none());
    kani::cover!(len == 3 && e == 1);
    kani::cover!(len == 3 && e == 3);
    kani::cover!(len == 0);
    core::mem::forget((l, l2));
    core::mem::forget(it);
    core::mem::forget(lt);
}

//@ tier: thorough
//@ inst: f = counting source of <= 6 items (u8; values >= 0x80 are errors), V = MV
//@ funcs: funs::limit! (run instance), funs::while_gtz!
//@ bounds: every count $n in isize; every stream of 0..=6 items, each an output or an error; 8 pulls of the result; unwind 9
//@ assume: none
//@ asserts: as c03_limit_pulls_once_per_output, with twice the stream length
//@ timeout: 2400
#[kani::proof]
#[kani::unwind(9)]
fn c03_limit_pulls_once_per_output_6() {
    let n: isize = kani::any();
    let s = Src::any_exact(6);
    let (given, calls, len, items) = (s.given_handle(), s.calls_handle(), s.len(), s.items());
    let cv = (FakeVars { f: Some(FakeF(s)), n: MV::Int(n) }, MV::Null);
    let mut it = real_limit()(cv);
    let want = if n <= 0 { 0 } else if (n as usize) < len { n as usize } else { len };
    let mut k = 0;
    while k < 8 {
        let o = it.next();
        if k < want {
            assert!(same_item(&o, items[k]));
            assert!(given.get() == k + 1);
            assert!(calls.get() == k + 1);
        } else {
            assert!(o.is_none());
            assert!(given.get() == want);
            if n <= 0 || (n as usize) <= len {
                assert!(calls.get() == want);
            }
        }
        core::mem::forget(o);
        k += 1;
    }
    kani::cover!(n == 5 && len == 6);
    kani::cover!(n == 6 && len == 4);
    kani::cover!(n < 0 && len == 6);
    core::mem::forget(it);
}
