// Shared harness support for jaq-core: a counting source iterator.
//@@ mount: jaq-core/src/lib.rs as verif_support
//@@ support
#![allow(dead_code, unused_imports)]
use alloc::rc::Rc;
use core::cell::Cell;

/// capacity of the counting source (quick harnesses use at most 3 items, thorough ones up to 6)
pub(crate) const SRC_MAX: usize = 6;

/// Source stream over at most SRC_MAX items that counts how often it is pulled and how many items it
/// has handed out, and reports an ARBITRARY LAWFUL size_hint (lower <= remaining <= upper).
#[derive(Clone)]
pub(crate) struct Src {
    items: [u8; SRC_MAX],
    len: usize,
    pos: usize,
    lower_slack: usize,
    upper: Option<usize>, // extra slack above the remaining count; None = unknown
    calls: Rc<Cell<usize>>,
    given: Rc<Cell<usize>>,
}
impl Src {
    pub(crate) fn any() -> Self {
        Self::any_upto(3)
    }
    pub(crate) fn any_upto(max: usize) -> Self {
        let len: usize = kani::any();
        kani::assume(len <= max);
        let lower_slack: usize = kani::any();
        kani::assume(lower_slack <= SRC_MAX);
        let upper: Option<usize> = kani::any();
        if let Some(u) = upper {
            kani::assume(u <= 2);
        }
        Src {
            items: kani::any(),
            len,
            pos: 0,
            lower_slack,
            upper,
            calls: Rc::new(Cell::new(0)),
            given: Rc::new(Cell::new(0)),
        }
    }
    fn remaining(&self) -> usize {
        self.len - self.pos
    }
    pub(crate) fn given_handle(&self) -> Rc<Cell<usize>> {
        self.given.clone()
    }
    pub(crate) fn calls_handle(&self) -> Rc<Cell<usize>> {
        self.calls.clone()
    }
    pub(crate) fn len(&self) -> usize {
        self.len
    }
    pub(crate) fn items(&self) -> [u8; SRC_MAX] {
        self.items
    }
    /// arbitrary source of up to `max` items with an EXACT size_hint
    pub(crate) fn any_exact(max: usize) -> Self {
        let len: usize = kani::any();
        kani::assume(len <= max);
        Self::of(kani::any(), len)
    }
    /// a source over the first `len` of the given items with exact size_hint
    pub(crate) fn of(items: [u8; SRC_MAX], len: usize) -> Self {
        Src { items, len, pos: 0, lower_slack: 0, upper: Some(0), calls: Rc::new(Cell::new(0)), given: Rc::new(Cell::new(0)) }
    }
}
impl Iterator for Src {
    type Item = u8;
    fn next(&mut self) -> Option<u8> {
        self.calls.set(self.calls.get() + 1);
        if self.pos < self.len {
            let x = self.items[self.pos];
            self.pos += 1;
            self.given.set(self.given.get() + 1);
            Some(x)
        } else {
            None
        }
    }
    fn size_hint(&self) -> (usize, Option<usize>) {
        let rem = self.remaining();
        (rem.saturating_sub(self.lower_slack), self.upper.map(|u| rem + u))
    }
}

