// C15 — operator precedence and associativity as tabulated in the manual.
// Child module of jaq-core/src/load/parse.rs (sees `impl Op for BinaryOp`, `Term::climb`).
//@@ mount: jaq-core/src/load/parse.rs as verif_c15_parse
//@@ prop: C15
#![allow(dead_code, unused_imports)]
use super::*;
use alloc::{vec, vec::Vec}; // for generated concrete-playback tests (no_std crate)
use ops::{Cmp, Math};
use prec_climb::{Associativity, Expr, Op};

const NOPS: u8 = 25;

/// The k-th binary operator of the language, as the REAL `BinaryOp` value the parser builds.
fn real(k: u8) -> BinaryOp<&'static str> {
    match k {
        0 => BinaryOp::Pipe(None),
        1 => BinaryOp::Comma,
        2 => BinaryOp::Pipe(Some(Pattern::Var("$x"))),
        3 => BinaryOp::Assign,
        4 => BinaryOp::Update,
        5 => BinaryOp::UpdateMath(Math::Add),
        6 => BinaryOp::UpdateMath(Math::Sub),
        7 => BinaryOp::UpdateMath(Math::Mul),
        8 => BinaryOp::UpdateMath(Math::Div),
        9 => BinaryOp::UpdateMath(Math::Rem),
        10 => BinaryOp::UpdateAlt,
        11 => BinaryOp::Alt,
        12 => BinaryOp::Or,
        13 => BinaryOp::And,
        14 => BinaryOp::Cmp(Cmp::Eq),
        15 => BinaryOp::Cmp(Cmp::Ne),
        16 => BinaryOp::Cmp(Cmp::Lt),
        17 => BinaryOp::Cmp(Cmp::Le),
        18 => BinaryOp::Cmp(Cmp::Gt),
        19 => BinaryOp::Cmp(Cmp::Ge),
        20 => BinaryOp::Math(Math::Add),
        21 => BinaryOp::Math(Math::Sub),
        22 => BinaryOp::Math(Math::Mul),
        23 => BinaryOp::Math(Math::Div),
        _ => BinaryOp::Math(Math::Rem),
    }
}

/// The manual's table, written independently of `impl Op for BinaryOp`:
/// `|` < `,` < `as $x |` < `=` `|=` `+=` ... `//=` < `//` < `or` < `and` < `==` `!=`
/// < `<` `<=` `>` `>=` < `+` `-` < `*` `/` < `%`.
fn level(k: u8) -> u8 {
    match k {
        0 => 0,
        1 => 1,
        2 => 2,
        3..=10 => 3,
        11 => 4,
        12 => 5,
        13 => 6,
        14 | 15 => 7,
        16..=19 => 8,
        20 | 21 => 9,
        22 | 23 => 10,
        _ => 11,
    }
}
/// `|` (with or without `as`) and the assignments group to the right, all others to the left.
fn right_assoc(k: u8) -> bool {
    k == 0 || k == 2 || (3..=10).contains(&k)
}
/// Does `a op1 b op2 c` mean `a op1 (b op2 c)` according to the table?
fn table_groups_right(k1: u8, k2: u8) -> bool {
    level(k2) > level(k1) || (level(k2) == level(k1) && right_assoc(k1))
}

/// Precedence and associativity of all 25 operators as computed by the REAL implementation,
/// evaluated once on concrete operator values (a symbolic operator makes symbolic execution explore
/// every arm of the recursive `precedence` at every level: undecided at 300 s).
#[derive(Clone, Copy)]
struct Real {
    prec: [usize; NOPS as usize],
    right: [bool; NOPS as usize],
}
fn one(k: u8, t: &mut Real) {
    let op = real(k);
    t.prec[k as usize] = op.precedence();
    t.right[k as usize] = matches!(op.associativity(), Associativity::Right);
    core::mem::forget(op); // no drop glue of the (recursive) Pattern type
}
fn real_table() -> Real {
    let mut t = Real { prec: [0; NOPS as usize], right: [false; NOPS as usize] };
    one(0, &mut t);
    one(1, &mut t);
    one(2, &mut t);
    one(3, &mut t);
    one(4, &mut t);
    one(5, &mut t);
    one(6, &mut t);
    one(7, &mut t);
    one(8, &mut t);
    one(9, &mut t);
    one(10, &mut t);
    one(11, &mut t);
    one(12, &mut t);
    one(13, &mut t);
    one(14, &mut t);
    one(15, &mut t);
    one(16, &mut t);
    one(17, &mut t);
    one(18, &mut t);
    one(19, &mut t);
    one(20, &mut t);
    one(21, &mut t);
    one(22, &mut t);
    one(23, &mut t);
    one(24, &mut t);
    t
}

/// Operator wrapper whose precedence/associativity are those of the real implementation.
struct VO(u8, usize, bool);
impl Op for VO {
    fn precedence(&self) -> usize {
        self.1
    }
    fn associativity(&self) -> Associativity {
        if self.2 {
            Associativity::Right
        } else {
            Associativity::Left
        }
    }
}
/// Shape of an expression over three leaves: enough to tell `(a op1 b) op2 c` from `a op1 (b op2 c)`.
#[derive(Clone, Copy, PartialEq, Eq)]
struct Sh {
    leaf: bool,
    top: u8,
    left_leaf: bool,
    right_leaf: bool,
    size: u8,
}
impl Sh {
    fn leaf() -> Self {
        Sh { leaf: true, top: 255, left_leaf: false, right_leaf: false, size: 1 }
    }
}
impl Expr<VO> for Sh {
    fn from_op(lhs: Self, op: VO, rhs: Self) -> Self {
        Sh { leaf: false, top: op.0, left_leaf: lhs.leaf, right_leaf: rhs.leaf, size: lhs.size + rhs.size }
    }
}


//@ tier: quick
//@ inst: S = &'static str
//@ funcs: <BinaryOp as Op>::precedence, <BinaryOp as Op>::associativity
//@ bounds: all 25 binary operators, evaluated on concrete operator values; all 625 ordered pairs of their precedence numbers compared
//@ asserts: the implementation's precedence numbers are order-isomorphic to the manual's table (p(op1) < p(op2) <=> level(op1) < level(op2), equal <=> same level), and exactly `|`, `as $x |` and the assignments are right-associative. (prec_climb only ever COMPARES precedences, so this is all c15_climb_triples_follow_table needs.)
#[kani::proof]
#[kani::unwind(27)]
fn c15_real_precedence_matches_table() {
    let rt = real_table();
    let mut i = 0;
    while i < NOPS {
        assert!(rt.right[i as usize] == right_assoc(i));
        let mut j = 0;
        while j < NOPS {
            let (p1, p2) = (rt.prec[i as usize], rt.prec[j as usize]);
            assert!((p1 < p2) == (level(i) < level(j)));
            assert!((p1 == p2) == (level(i) == level(j)));
            j += 1;
        }
        i += 1;
    }
    kani::cover!(rt.prec[24] > rt.prec[22]);
}

fn triple(k1: u8, k2: u8) {
    let tail = [
        (VO(k1, level(k1) as usize, right_assoc(k1)), Sh::leaf()),
        (VO(k2, level(k2) as usize, right_assoc(k2)), Sh::leaf()),
    ];
    let t = prec_climb::climb(Sh::leaf(), tail);
    assert!(!t.leaf && t.size == 3);
    if table_groups_right(k1, k2) {
        // a op1 (b op2 c)
        assert!(t.top == k1 && t.left_leaf && !t.right_leaf);
    } else {
        // (a op1 b) op2 c
        assert!(t.top == k2 && !t.left_leaf && t.right_leaf);
    }
    kani::cover!(k1 == 20 && k2 == 22 && t.top == 20);
    kani::cover!(k1 == 3 && k2 == 3 && t.top == 3);
    kani::cover!(k1 == 24 && k2 == 0 && t.top == 0);
}

//@ tier: quick
//@ inst: O = VO carrying the TABLE's level and associativity (shown order-isomorphic to the real `impl Op for BinaryOp` by c15_real_precedence_matches_table), T = Sh (shape of the built tree)
//@ funcs: prec_climb::climb, prec_climb::climb1
//@ bounds: every ordered pair (op1, op2) of the operators `|` `,` `as $x |` `=` `+` `*` `%` (7 levels incl. both right-associative kinds, 49 pairs; all 12 levels in the thorough harness c15_climb_triples_all_levels) in `a op1 b op2 c`, case-split on concrete operators (with symbolic operators the nested loops and the recursion of climb1 are unrolled syntactically and did not decide in 300 s); that all operators of a level share precedence and associativity is shown by c15_real_precedence_matches_table
//@ asserts: the tree groups to the right exactly when the manual's table says so (op2 binds tighter, or equal level and right-associative), to the left otherwise; all three operands are used in order
#[kani::proof]
#[kani::unwind(4)]
fn c15_climb_triples_follow_table() {
    // 7 representative operators: 49 ordered pairs, straight-line
    // so that the unwind bound can stay at what climb1 needs for three operands
    triple(0, 0);
    triple(0, 1);
    triple(0, 2);
    triple(0, 3);
    triple(0, 20);
    triple(0, 22);
    triple(0, 24);
    triple(1, 0);
    triple(1, 1);
    triple(1, 2);
    triple(1, 3);
    triple(1, 20);
    triple(1, 22);
    triple(1, 24);
    triple(2, 0);
    triple(2, 1);
    triple(2, 2);
    triple(2, 3);
    triple(2, 20);
    triple(2, 22);
    triple(2, 24);
    triple(3, 0);
    triple(3, 1);
    triple(3, 2);
    triple(3, 3);
    triple(3, 20);
    triple(3, 22);
    triple(3, 24);
    triple(20, 0);
    triple(20, 1);
    triple(20, 2);
    triple(20, 3);
    triple(20, 20);
    triple(20, 22);
    triple(20, 24);
    triple(22, 0);
    triple(22, 1);
    triple(22, 2);
    triple(22, 3);
    triple(22, 20);
    triple(22, 22);
    triple(22, 24);
    triple(24, 0);
    triple(24, 1);
    triple(24, 2);
    triple(24, 3);
    triple(24, 20);
    triple(24, 22);
    triple(24, 24);
}

//@ tier: thorough
//@ timeout: 1800
//@ inst: O = VO carrying the TABLE's level and associativity (shown order-isomorphic to the real `impl Op for BinaryOp` by c15_real_precedence_matches_table), T = Sh (shape of the built tree)
//@ funcs: prec_climb::climb, prec_climb::climb1
//@ bounds: every ordered pair (op1, op2) of one representative operator per precedence level (12 levels, 144 pairs) in `a op1 b op2 c`, case-split on concrete operators (with symbolic operators the nested loops and the recursion of climb1 are unrolled syntactically and did not decide in 300 s); that all operators of a level share precedence and associativity is shown by c15_real_precedence_matches_table
//@ asserts: the tree groups to the right exactly when the manual's table says so (op2 binds tighter, or equal level and right-associative), to the left otherwise; all three operands are used in order
#[kani::proof]
#[kani::unwind(4)]
fn c15_climb_triples_all_levels() {
    // one representative operator per precedence level (12 levels): 144 ordered pairs, straight-line
    // so that the unwind bound can stay at what climb1 needs for three operands
    triple(0, 0);
    triple(0, 1);
    triple(0, 2);
    triple(0, 3);
    triple(0, 11);
    triple(0, 12);
    triple(0, 13);
    triple(0, 14);
    triple(0, 16);
    triple(0, 20);
    triple(0, 22);
    triple(0, 24);
    triple(1, 0);
    triple(1, 1);
    triple(1, 2);
    triple(1, 3);
    triple(1, 11);
    triple(1, 12);
    triple(1, 13);
    triple(1, 14);
    triple(1, 16);
    triple(1, 20);
    triple(1, 22);
    triple(1, 24);
    triple(2, 0);
    triple(2, 1);
    triple(2, 2);
    triple(2, 3);
    triple(2, 11);
    triple(2, 12);
    triple(2, 13);
    triple(2, 14);
    triple(2, 16);
    triple(2, 20);
    triple(2, 22);
    triple(2, 24);
    triple(3, 0);
    triple(3, 1);
    triple(3, 2);
    triple(3, 3);
    triple(3, 11);
    triple(3, 12);
    triple(3, 13);
    triple(3, 14);
    triple(3, 16);
    triple(3, 20);
    triple(3, 22);
    triple(3, 24);
    triple(11, 0);
    triple(11, 1);
    triple(11, 2);
    triple(11, 3);
    triple(11, 11);
    triple(11, 12);
    triple(11, 13);
    triple(11, 14);
    triple(11, 16);
    triple(11, 20);
    triple(11, 22);
    triple(11, 24);
    triple(12, 0);
    triple(12, 1);
    triple(12, 2);
    triple(12, 3);
    triple(12, 11);
    triple(12, 12);
    triple(12, 13);
    triple(12, 14);
    triple(12, 16);
    triple(12, 20);
    triple(12, 22);
    triple(12, 24);
    triple(13, 0);
    triple(13, 1);
    triple(13, 2);
    triple(13, 3);
    triple(13, 11);
    triple(13, 12);
    triple(13, 13);
    triple(13, 14);
    triple(13, 16);
    triple(13, 20);
    triple(13, 22);
    triple(13, 24);
    triple(14, 0);
    triple(14, 1);
    triple(14, 2);
    triple(14, 3);
    triple(14, 11);
    triple(14, 12);
    triple(14, 13);
    triple(14, 14);
    triple(14, 16);
    triple(14, 20);
    triple(14, 22);
    triple(14, 24);
    triple(16, 0);
    triple(16, 1);
    triple(16, 2);
    triple(16, 3);
    triple(16, 11);
    triple(16, 12);
    triple(16, 13);
    triple(16, 14);
    triple(16, 16);
    triple(16, 20);
    triple(16, 22);
    triple(16, 24);
    triple(20, 0);
    triple(20, 1);
    triple(20, 2);
    triple(20, 3);
    triple(20, 11);
    triple(20, 12);
    triple(20, 13);
    triple(20, 14);
    triple(20, 16);
    triple(20, 20);
    triple(20, 22);
    triple(20, 24);
    triple(22, 0);
    triple(22, 1);
    triple(22, 2);
    triple(22, 3);
    triple(22, 11);
    triple(22, 12);
    triple(22, 13);
    triple(22, 14);
    triple(22, 16);
    triple(22, 20);
    triple(22, 22);
    triple(22, 24);
    triple(24, 0);
    triple(24, 1);
    triple(24, 2);
    triple(24, 3);
    triple(24, 11);
    triple(24, 12);
    triple(24, 13);
    triple(24, 14);
    triple(24, 16);
    triple(24, 20);
    triple(24, 22);
    triple(24, 24);
}

fn as_pair(k2: u8) {
    let mut tail = [(real(2), Term::<&'static str>::Id), (real(k2), Term::Id)].into_iter();
    let t = Term::<&'static str>::Id.climb(&mut tail);
    match &t {
        Term::BinOp(l, BinaryOp::Pipe(Some(_)), r) => {
            assert!(matches!(**l, Term::Id) && matches!(**r, Term::BinOp(..)));
        }
        _ => panic!("`a as $x | b op c` must be a binding whose body is `b op c`"),
    }
    core::mem::forget((t, tail));
}

//@ tier: quick
//@ inst: S = &'static str; leaves are `Term::Id`
//@ funcs: Term::climb (the `as $x |` right-extension), prec_climb::climb, <Term as Expr<BinaryOp>>::from_op
//@ bounds: `a as $x | b op2 c` for op2 in { `|`, `,`, `=`, `//`, `%` } (one operator per side of the binding level and the extremes; case-split on concrete operators -- all 14 levels took 288 s / 7 GB), built as real `Term`/`BinaryOp` values
//@ asserts: `a as $x | b op2 c` always means `a as $x | (b op2 c)`: bindings extend as far right as possible, whatever operator follows (also the lower-precedence `|` and `,`)
#[kani::proof]
#[kani::unwind(6)]
fn c15_term_climb_as_extends_right() {
    as_pair(0);
    as_pair(1);
    as_pair(3);
    as_pair(11);
    as_pair(24);
    kani::cover!(true);
}

// ---- four operands: `a op1 b op2 c op3 d` --------------------------------------------------------
/// Tree shape as a number: a leaf is 1, a node is an injective combination of its children and operator.
#[derive(Clone, Copy, PartialEq, Eq)]
struct Tr(u64);
impl Expr<VO> for Tr {
    fn from_op(lhs: Self, op: VO, rhs: Self) -> Self {
        Tr((lhs.0 * 64 + rhs.0) * 32 + op.0 as u64 + 2)
    }
}
fn node(l: u64, k: u8, r: u64) -> u64 {
    (l * 64 + r) * 32 + k as u64 + 2
}
/// Independent reference: split at the operator that binds loosest; among equals the RIGHTmost for
/// left-associative levels and the LEFTmost for right-associative ones; recurse on both sides.
fn reference(ops: [u8; 3], lo: usize, hi: usize) -> u64 {
    // operands lo..=hi, operators lo..hi
    if lo == hi {
        return 1;
    }
    let mut best = lo;
    let mut i = lo + 1;
    while i < hi {
        let (li, lb) = (level(ops[i]), level(ops[best]));
        if li < lb || (li == lb && !right_assoc(ops[i])) {
            best = i;
        }
        i += 1;
    }
    node(reference(ops, lo, best), ops[best], reference(ops, best + 1, hi))
}
fn quad(k1: u8, k2: u8, k3: u8) {
    let v = |k: u8| VO(k, level(k) as usize, right_assoc(k));
    let tail = [(v(k1), Tr(1)), (v(k2), Tr(1)), (v(k3), Tr(1))];
    let t = prec_climb::climb(Tr(1), tail);
    assert!(t.0 == reference([k1, k2, k3], 0, 3));
}

//@ tier: quick
//@ inst: O = VO carrying the table's level and associativity, T = Tr (injective tree code)
//@ funcs: prec_climb::climb, prec_climb::climb1
//@ bounds: `a op1 b op2 c op3 d` for all 27 triples over { + - * } (concrete; the thorough harness c15_climb_quadruples_more adds { | = * } and { , and < })
//@ asserts: the tree equals an independent reference parse (split at the loosest operator, rightmost among equal left-associative ones, leftmost among right-associative ones) -- e.g. `10 - 2 * 3 - 1` is `(10 - (2 * 3)) - 1`
#[kani::proof]
#[kani::unwind(5)]
fn c15_climb_quadruples_match_reference() {
    quad(20, 20, 20);
    quad(20, 20, 21);
    quad(20, 20, 22);
    quad(20, 21, 20);
    quad(20, 21, 21);
    quad(20, 21, 22);
    quad(20, 22, 20);
    quad(20, 22, 21);
    quad(20, 22, 22);
    quad(21, 20, 20);
    quad(21, 20, 21);
    quad(21, 20, 22);
    quad(21, 21, 20);
    quad(21, 21, 21);
    quad(21, 21, 22);
    quad(21, 22, 20);
    quad(21, 22, 21);
    quad(21, 22, 22);
    quad(22, 20, 20);
    quad(22, 20, 21);
    quad(22, 20, 22);
    quad(22, 21, 20);
    quad(22, 21, 21);
    quad(22, 21, 22);
    quad(22, 22, 20);
    quad(22, 22, 21);
    quad(22, 22, 22);
    kani::cover!(true);
}

//@ tier: thorough
//@ timeout: 1800
//@ inst: O = VO carrying the table's level and associativity, T = Tr (injective tree code)
//@ funcs: prec_climb::climb, prec_climb::climb1
//@ bounds: `a op1 b op2 c op3 d` for all 27 triples over { + - * }, all 27 over { | = * } and all 27 over { , and < } (81 concrete triples: left- and right-associative levels, a tighter operator between two of equal level)
//@ asserts: the tree equals an independent reference parse (split at the loosest operator, rightmost among equal left-associative ones, leftmost among right-associative ones) -- e.g. `10 - 2 * 3 - 1` is `(10 - (2 * 3)) - 1`
#[kani::proof]
#[kani::unwind(5)]
fn c15_climb_quadruples_more() {
    quad(20, 20, 20);
    quad(20, 20, 21);
    quad(20, 20, 22);
    quad(20, 21, 20);
    quad(20, 21, 21);
    quad(20, 21, 22);
    quad(20, 22, 20);
    quad(20, 22, 21);
    quad(20, 22, 22);
    quad(21, 20, 20);
    quad(21, 20, 21);
    quad(21, 20, 22);
    quad(21, 21, 20);
    quad(21, 21, 21);
    quad(21, 21, 22);
    quad(21, 22, 20);
    quad(21, 22, 21);
    quad(21, 22, 22);
    quad(22, 20, 20);
    quad(22, 20, 21);
    quad(22, 20, 22);
    quad(22, 21, 20);
    quad(22, 21, 21);
    quad(22, 21, 22);
    quad(22, 22, 20);
    quad(22, 22, 21);
    quad(22, 22, 22);
    quad(0, 0, 0);
    quad(0, 0, 3);
    quad(0, 0, 22);
    quad(0, 3, 0);
    quad(0, 3, 3);
    quad(0, 3, 22);
    quad(0, 22, 0);
    quad(0, 22, 3);
    quad(0, 22, 22);
    quad(3, 0, 0);
    quad(3, 0, 3);
    quad(3, 0, 22);
    quad(3, 3, 0);
    quad(3, 3, 3);
    quad(3, 3, 22);
    quad(3, 22, 0);
    quad(3, 22, 3);
    quad(3, 22, 22);
    quad(22, 0, 0);
    quad(22, 0, 3);
    quad(22, 0, 22);
    quad(22, 3, 0);
    quad(22, 3, 3);
    quad(22, 3, 22);
    quad(22, 22, 0);
    quad(22, 22, 3);
    quad(22, 22, 22);
    quad(1, 1, 1);
    quad(1, 1, 13);
    quad(1, 1, 16);
    quad(1, 13, 1);
    quad(1, 13, 13);
    quad(1, 13, 16);
    quad(1, 16, 1);
    quad(1, 16, 13);
    quad(1, 16, 16);
    quad(13, 1, 1);
    quad(13, 1, 13);
    quad(13, 1, 16);
    quad(13, 13, 1);
    quad(13, 13, 13);
    quad(13, 13, 16);
    quad(13, 16, 1);
    quad(13, 16, 13);
    quad(13, 16, 16);
    quad(16, 1, 1);
    quad(16, 1, 13);
    quad(16, 1, 16);
    quad(16, 13, 1);
    quad(16, 13, 13);
    quad(16, 13, 16);
    quad(16, 16, 1);
    quad(16, 16, 13);
    quad(16, 16, 16);
    kani::cover!(true);
}

fn as_as(k3: u8) {
    // a as $x | b as $x | c OP d
    let mut tail = [
        (real(2), Term::<&'static str>::Id),
        (real(2), Term::Id),
        (real(k3), Term::Id),
    ]
    .into_iter();
    let t = Term::<&'static str>::Id.climb(&mut tail);
    match &t {
        Term::BinOp(l, BinaryOp::Pipe(Some(_)), r) => {
            assert!(matches!(**l, Term::Id));
            match &**r {
                Term::BinOp(l2, BinaryOp::Pipe(Some(_)), r2) => {
                    assert!(matches!(**l2, Term::Id) && matches!(**r2, Term::BinOp(..)));
                }
                _ => panic!("the body of the outer binding must be the inner binding"),
            }
        }
        _ => panic!("`a as $x | b as $y | c op d` must be a binding"),
    }
    core::mem::forget((t, tail));
}

//@ tier: quick
//@ inst: S = &'static str; leaves are `Term::Id`
//@ funcs: Term::climb, prec_climb::climb
//@ bounds: `a as $x | b as $y | c | d` built as real Term/BinaryOp values (one harness per following operator: `|`, `,`, `+`)
//@ asserts: both bindings extend as far right as possible: the tree is `a as $x | (b as $y | (c | d))`
#[kani::proof]
#[kani::unwind(6)]
fn c15_term_climb_nested_as_pipe() {
    as_as(0);
    kani::cover!(true);
}

//@ tier: quick
//@ inst: S = &'static str; leaves are `Term::Id`
//@ funcs: Term::climb, prec_climb::climb
//@ bounds: `a as $x | b as $y | c , d` built as real Term/BinaryOp values (one harness per following operator: `|`, `,`, `+`)
//@ asserts: both bindings extend as far right as possible: the tree is `a as $x | (b as $y | (c , d))`
#[kani::proof]
#[kani::unwind(6)]
fn c15_term_climb_nested_as_comma() {
    as_as(1);
    kani::cover!(true);
}

//@ tier: quick
//@ inst: S = &'static str; leaves are `Term::Id`
//@ funcs: Term::climb, prec_climb::climb
//@ bounds: `a as $x | b as $y | c + d` built as real Term/BinaryOp values (one harness per following operator: `|`, `,`, `+`)
//@ asserts: both bindings extend as far right as possible: the tree is `a as $x | (b as $y | (c + d))`
#[kani::proof]
#[kani::unwind(6)]
fn c15_term_climb_nested_as_plus() {
    as_as(20);
    kani::cover!(true);
}

