// C03 / C04 — the trampoline `Stack` pulls only from the top iterator, one item per output.
//@@ mount: jaq-core/src/stack.rs as verif_c03_stack
//@@ prop: C03
#![allow(dead_code, unused_imports)]
use super::*;
use crate::verif_support::Src;
use alloc::{vec, vec::Vec}; // for generated concrete-playback tests (no_std crate)

/// Items with the top bit set are "tail calls": they are replaced by a child stream of up to two
/// plain items; plain items are outputs.
fn step(x: u8) -> ControlFlow<u8, Src> {
    if x & 0x80 == 0 {
        ControlFlow::Break(x)
    } else {
        let n = core::cmp::min((x & 3) as usize, 2);
        ControlFlow::Continue(Src::of([x & 0x7c, (x & 0x7c) | 1, 0, 0, 0, 0], n))
    }
}
fn outs(x: u8) -> usize {
    if x & 0x80 == 0 {
        1
    } else {
        core::cmp::min((x & 3) as usize, 2)
    }
}
fn out_at(x: u8, c: usize) -> u8 {
    if x & 0x80 == 0 {
        x
    } else if c == 0 {
        x & 0x7c
    } else {
        (x & 0x7c) | 1
    }
}

//@ tier: attempt
//@ timeout: 2400
//@ inst: I = Src (counting source, exact size_hint), F = fn(u8) -> ControlFlow<u8, Src>
//@ funcs: stack::Stack::next
//@ bounds: root stream of 0..=2 items, each either an output or a tail call replaced by a child stream of 0..=2 outputs; all (<= 4) outputs and the end taken one by one
//@ asserts: outputs come in depth-first left-to-right order (a child stream's outputs before the parent's next item); after the k-th output only the root items up to the one producing it were pulled (never ahead of demand); exhausted iterators are not kept on the stack (stack depth <= 2 here)
#[kani::proof]
#[kani::unwind(6)]
fn c03_stack_next_depth_first_on_demand() {
    let root = Src::any_exact(2);
    let (given, len, items) = (root.given_handle(), root.len(), root.items());
    let mut st = Stack::new(Vec::from([root]), step);
    let (mut idx, mut copy) = (0usize, 0usize);
    let mut i = 0;
    while i < 5 {
        while idx < len && copy >= outs(items[idx]) {
            idx += 1;
            copy = 0;
        }
        let o = st.next();
        if idx < len {
            assert!(o == Some(out_at(items[idx], copy)));
            assert!(given.get() == idx + 1);
            assert!(st.0.len() <= 2);
            copy += 1;
        } else {
            assert!(o.is_none());
            assert!(st.0.is_empty());
        }
        i += 1;
    }
    kani::cover!(len == 2 && outs(items[0]) == 2 && outs(items[1]) == 2);
    kani::cover!(len == 2 && outs(items[0]) == 0 && outs(items[1]) == 2);
    core::mem::forget(st);
}
