// C03 — streams are produced on demand: the single-output fast paths and the flat-map adapters
// never pull more from their source than the outputs demanded so far require.
// Child module of jaq-core/src/box_iter.rs (sees the private `next_if_one`).
//@@ mount: jaq-core/src/box_iter.rs as verif_c03_box_iter
//@@ prop: C03
#![allow(dead_code, unused_imports)]
use super::*;
use alloc::rc::Rc;
use alloc::{vec, vec::Vec}; // for generated concrete-playback tests (no_std crate)
use core::cell::Cell;
use crate::verif_support::Src;

//@ tier: quick
//@ inst: T = u8 context, U = u8 items from Src, V = u8
//@ funcs: box_iter::map_with, box_iter::next_if_one
//@ bounds: sources of length 0..=3 with every lawful size_hint; k = 0..=3 outputs taken
//@ asserts: the outputs are r(y, x) for the source items in order; after taking k outputs at most max(k, 1) source items were consumed, and more than k only on the single-output fast path (source of exactly one item)
#[kani::proof]
#[kani::unwind(5)]
fn c03_map_with_pulls_on_demand() {
    let s = Src::any();
    let (given, len, items) = (s.given_handle(), s.len(), s.items());
    let x: u8 = kani::any();
    let mut it = map_with(s, x, |y, x| y ^ x);
    assert!(given.get() == 0 || (len == 1 && given.get() == 1));
    let k: usize = kani::any();
    kani::assume(k <= 3);
    let mut i = 0;
    while i < k {
        let o = it.next();
        if i < len {
            assert!(o == Some(items[i] ^ x));
            assert!(given.get() == i + 1);
        } else {
            assert!(o.is_none());
        }
        i += 1;
    }
    kani::cover!(k == 2 && len == 3);
    kani::cover!(k == 1 && len == 1);
    core::mem::forget(it);
}

/// Right-hand side used for the flat-map adapters: `y` yields `y & 3` (at most 2) copies of
/// `y ^ x`, and every invocation is counted.
fn rhs(y: u8, x: u8, calls: &Rc<Cell<usize>>) -> BoxIter<'static, u8> {
    calls.set(calls.get() + 1);
    Box::new(Rep(y ^ x, fan(y)))
}
/// `n` copies of a value (a concrete type instead of `repeat(..).take(n)` keeps the set of
/// `dyn Iterator<Item = u8>` implementations, i.e. CBMC's dispatch candidates, small)
struct Rep(u8, usize);
impl Iterator for Rep {
    type Item = u8;
    fn next(&mut self) -> Option<u8> {
        if self.1 > 0 {
            self.1 -= 1;
            Some(self.0)
        } else {
            None
        }
    }
}
fn fan(y: u8) -> usize {
    core::cmp::min((y & 3) as usize, 2)
}

/// Reference cursor for flat-map outputs: (item index, copy index) of the next expected output.
/// Straight-line (no loop) so that the harness' unwind bound can stay at the depth the adapters need:
/// dynamic dispatch on `Box<dyn Iterator<Item = u8>>` is over-approximated by CBMC (every `next` of that
/// signature is a candidate, including FlatMap's own), which turns a larger bound into exponential work.
fn advance(idx: &mut usize, copy: &mut usize, len: usize, outs: [usize; 3]) {
    if *idx < len && *copy >= outs[*idx] {
        *idx += 1;
        *copy = 0;
    }
    if *idx < len && *copy >= outs[*idx] {
        *idx += 1;
        *copy = 0;
    }
}

macro_rules! step_with {
    ($it:ident, $idx:ident, $copy:ident, $len:ident, $items:ident, $outs:ident, $x:ident, $given:ident, $rcalls:ident) => {
        advance(&mut $idx, &mut $copy, $len, $outs);
        let o = $it.next();
        if $idx < $len {
            assert!(o == Some($items[$idx] ^ $x));
            assert!($given.get() == $idx + 1);
            assert!($rcalls.get() == $idx + 1);
            $copy += 1;
        } else {
            assert!(o.is_none());
            assert!($rcalls.get() == $len);
        }
    };
}

//@ tier: attempt
//@ timeout: 2400
//@ inst: T = u8 context, U = u8 items from Src, V = u8; right-hand side yields 0..=2 outputs per item
//@ funcs: box_iter::flat_map_with, box_iter::next_if_one
//@ bounds: sources of length 0..=2 with every lawful size_hint; fan-out 0..=2 per item; all (<= 4) outputs and the end of the stream taken one by one, checked after each
//@ asserts: outputs equal the left-to-right nested-loop reference; after the k-th output exactly the source items up to the one producing it have been consumed and the right-hand side was invoked once per consumed item (never ahead of demand), except that a source of exactly one item may be consumed at construction (documented fast path)
#[kani::proof]
#[kani::unwind(4)]
fn c03_flat_map_with_pulls_on_demand() {
    let s = Src::any_upto(2);
    let (given, len, items) = (s.given_handle(), s.len(), s.items());
    let x: u8 = kani::any();
    let rcalls = Rc::new(Cell::new(0usize));
    let rc2 = rcalls.clone();
    let mut it = flat_map_with(s, x, move |y, x| rhs(y, x, &rc2));
    assert!(given.get() == 0 || (len == 1 && given.get() == 1));
    assert!(rcalls.get() == given.get());
    let outs = [fan(items[0]), fan(items[1]), fan(items[2])];
    let (mut idx, mut copy) = (0usize, 0usize);
    step_with!(it, idx, copy, len, items, outs, x, given, rcalls);
    step_with!(it, idx, copy, len, items, outs, x, given, rcalls);
    step_with!(it, idx, copy, len, items, outs, x, given, rcalls);
    step_with!(it, idx, copy, len, items, outs, x, given, rcalls);
    step_with!(it, idx, copy, len, items, outs, x, given, rcalls);
    kani::cover!(len == 2 && outs[0] == 2 && outs[1] == 2);
    kani::cover!(len == 2 && outs[0] == 0 && outs[1] == 1);
    kani::cover!(len == 1 && outs[0] == 2);
    core::mem::forget(it);
}

macro_rules! step_then {
    ($it:ident, $idx:ident, $copy:ident, $len:ident, $items:ident, $outs:ident, $given:ident) => {
        advance(&mut $idx, &mut $copy, $len, $outs);
        let o = $it.next();
        if $idx < $len {
            let y = $items[$idx];
            assert!(o == Some(if y & 0x80 != 0 { Err(y) } else { Ok(y) }));
            assert!($given.get() == $idx + 1);
            $copy += 1;
        } else {
            assert!(o.is_none());
        }
    };
}

//@ tier: attempt
//@ timeout: 2400
//@ inst: T = u8, U = u8, E = u8; source items are Ok(y) or Err(y) by their top bit
//@ funcs: box_iter::flat_map_then, box_iter::then, box_iter::next_if_one
//@ bounds: sources of length 0..=2 with every lawful size_hint; fan-out 0..=2 per Ok item; all (<= 4) outputs and the end of the stream taken one by one, checked after each
//@ asserts: an Err item is passed through as exactly one output without invoking the right-hand side; outputs equal the reference; after the k-th output only the source items up to the one producing it were consumed (fast path excepted); the right-hand side is invoked exactly once per Ok item
#[kani::proof]
#[kani::unwind(4)]
fn c03_flat_map_then_pulls_on_demand() {
    let s = Src::any_upto(2);
    let (given, len, items) = (s.given_handle(), s.len(), s.items());
    let rcalls = Rc::new(Cell::new(0usize));
    let rc2 = rcalls.clone();
    let l = s.map(|y| if y & 0x80 != 0 { Err(y) } else { Ok(y) });
    let mut it = flat_map_then(l, move |y| -> Results<'static, u8, u8> {
        rc2.set(rc2.get() + 1);
        Box::new(core::iter::repeat(Ok(y)).take(fan(y)))
    });
    assert!(given.get() == 0 || (len == 1 && given.get() == 1));
    let o1 = |y: u8| if y & 0x80 != 0 { 1 } else { fan(y) };
    let outs = [o1(items[0]), o1(items[1]), o1(items[2])];
    let (mut idx, mut copy) = (0usize, 0usize);
    step_then!(it, idx, copy, len, items, outs, given);
    step_then!(it, idx, copy, len, items, outs, given);
    step_then!(it, idx, copy, len, items, outs, given);
    step_then!(it, idx, copy, len, items, outs, given);
    step_then!(it, idx, copy, len, items, outs, given);
    let oks = (if len > 0 && items[0] & 0x80 == 0 { 1 } else { 0 }) + (if len > 1 && items[1] & 0x80 == 0 { 1 } else { 0 });
    assert!(rcalls.get() == oks);
    kani::cover!(len == 2 && items[0] & 0x80 != 0 && outs[1] == 2);
    kani::cover!(len == 2 && outs[0] == 0 && items[1] & 0x80 != 0);
    core::mem::forget(it);
}

