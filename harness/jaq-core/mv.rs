// Minimal value type for jaq-core harnesses: machine integers (checked arithmetic) and null.
//@@ mount: jaq-core/src/lib.rs as verif_mv
//@@ support
#![allow(dead_code, unused_imports)]
use crate::box_iter::{box_once, BoxIter};
use crate::path::Opt;
use crate::val::Range;
use crate::{Error, Exn, ValR, ValT, ValX};
use alloc::boxed::Box;
use alloc::string::String;

#[derive(Clone, Debug, PartialEq, PartialOrd)]
pub(crate) enum MV {
    Null,
    Int(isize),
}
impl core::fmt::Display for MV {
    fn fmt(&self, _f: &mut core::fmt::Formatter) -> core::fmt::Result {
        Ok(())
    }
}
impl From<bool> for MV {
    fn from(_b: bool) -> Self {
        MV::Null
    }
}
impl From<isize> for MV {
    fn from(i: isize) -> Self {
        MV::Int(i)
    }
}
impl From<String> for MV {
    fn from(_s: String) -> Self {
        MV::Null
    }
}
impl From<Range<MV>> for MV {
    fn from(_r: Range<MV>) -> Self {
        MV::Null
    }
}
impl FromIterator<MV> for MV {
    fn from_iter<T: IntoIterator<Item = MV>>(_iter: T) -> Self {
        MV::Null
    }
}
/// Integer addition is exact or an error (the harness value type has no big integers).
impl core::ops::Add for MV {
    type Output = ValR<MV>;
    fn add(self, r: Self) -> ValR<MV> {
        match (&self, &r) {
            (MV::Int(a), MV::Int(b)) => a.checked_add(*b).map(MV::Int).ok_or(Error::new(self)),
            _ => Err(Error::new(self)),
        }
    }
}
impl core::ops::Sub for MV {
    type Output = ValR<MV>;
    fn sub(self, r: Self) -> ValR<MV> {
        match (&self, &r) {
            (MV::Int(a), MV::Int(b)) => a.checked_sub(*b).map(MV::Int).ok_or(Error::new(self)),
            _ => Err(Error::new(self)),
        }
    }
}
macro_rules! no_op {
    ($tr:ident, $f:ident) => {
        impl core::ops::$tr for MV {
            type Output = ValR<MV>;
            fn $f(self, _r: Self) -> ValR<MV> {
                Err(Error::new(self))
            }
        }
    };
}
no_op!(Mul, mul);
no_op!(Div, div);
no_op!(Rem, rem);
impl core::ops::Neg for MV {
    type Output = ValR<MV>;
    fn neg(self) -> ValR<MV> {
        Err(Error::new(self))
    }
}
impl ValT for MV {
    fn from_num(_n: &str) -> ValR<Self> {
        Ok(MV::Null)
    }
    fn from_map<I: IntoIterator<Item = (Self, Self)>>(_iter: I) -> ValR<Self> {
        Ok(MV::Null)
    }
    fn key_values(self) -> BoxIter<'static, ValR<(Self, Self), Self>> {
        box_once(Err(Error::new(self)))
    }
    fn values(self) -> Box<dyn Iterator<Item = ValR<Self>>> {
        box_once(Err(Error::new(self)))
    }
    fn index(self, _index: &Self) -> ValR<Self> {
        Err(Error::new(self))
    }
    fn range(self, _range: Range<&Self>) -> ValR<Self> {
        Err(Error::new(self))
    }
    fn map_values<'a, I: Iterator<Item = ValX<'a, Self>>>(self, _opt: Opt, _f: impl Fn(Self) -> I) -> ValX<'a, Self> {
        Ok(self)
    }
    fn map_index<'a, I: Iterator<Item = ValX<'a, Self>>>(self, _index: &Self, _opt: Opt, _f: impl Fn(Self) -> I) -> ValX<'a, Self> {
        Ok(self)
    }
    fn map_range<'a, I: Iterator<Item = ValX<'a, Self>>>(self, _range: Range<&Self>, _opt: Opt, _f: impl Fn(Self) -> I) -> ValX<'a, Self> {
        Ok(self)
    }
    fn as_bool(&self) -> bool {
        !matches!(self, MV::Null)
    }
    fn into_string(self) -> Self {
        self
    }
}
