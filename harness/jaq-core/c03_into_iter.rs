// C03 — `collect_if_once` must not consume a stream that may have more than one output.
//@@ mount: jaq-core/src/into_iter.rs as verif_c03_into_iter
//@@ prop: C03
#![allow(dead_code, unused_imports)]
use super::*;
use crate::verif_support::Src;
use alloc::{vec, vec::Vec}; // for generated concrete-playback tests (no_std crate)

//@ tier: quick
//@ inst: I = Src (counting source over <= 3 u8 items with an arbitrary lawful size_hint)
//@ funcs: into_iter::collect_if_once, Either::into_iter, Delay::into_iter
//@ bounds: sources of length 0..=3, every lawful size_hint
//@ asserts: the eager branch is taken only for a source of exactly one item (and yields it); otherwise nothing is consumed at construction, and the delayed iterator yields all items from the start
#[kani::proof]
#[kani::unwind(6)]
fn c03_collect_if_once_does_not_peek() {
    let s = Src::any();
    let (given, len, items) = (s.given_handle(), s.len(), s.items());
    let e = collect_if_once(move || s);
    match &e {
        Either::L(_) => assert!(len == 1 && given.get() == 1),
        Either::R(_) => assert!(given.get() == 0 || len == 0),
    }
    if len >= 2 {
        assert!(given.get() == 0);
    }
    let eager = matches!(e, Either::L(_));
    let mut it = e.into_iter();
    let mut i = 0;
    while i < 4 {
        let o = it.next();
        if i < len {
            assert!(o == Some(items[i]));
        } else {
            assert!(o.is_none());
        }
        i += 1;
    }
    kani::cover!(eager);
    kani::cover!(!eager && len == 1);
    kani::cover!(!eager && len == 3);
}
