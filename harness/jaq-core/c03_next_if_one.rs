// C03 — `next_if_one` (private): kept in its own file so that a change of its signature only
// affects these harnesses (bin/check retries each file separately when a crate build fails).
//@@ mount: jaq-core/src/box_iter.rs as verif_c03_next_if_one
//@@ prop: C03
#![allow(dead_code, unused_imports)]
use super::*;
use crate::verif_support::Src;
use alloc::{vec, vec::Vec}; // for generated concrete-playback tests (no_std crate)

//@ tier: quick
//@ inst: Iterator = Src (counting source over <= 3 u8 items with an arbitrary lawful size_hint)
//@ funcs: box_iter::next_if_one
//@ bounds: sources of length 0..=3, every lawful size_hint (lower slack <= 3, upper = exact + 0..=2 or unknown)
//@ asserts: Some(x) only if the source held exactly one item, x being that item; None => nothing was consumed from the source (no peeking): a stream with more than one pending output is never advanced
#[kani::proof]
#[kani::unwind(5)]
fn c03_next_if_one_does_not_peek() {
    let mut s = Src::any();
    let (given, len, first) = (s.given_handle(), s.len(), s.items()[0]);
    let r = next_if_one(&mut s);
    match r {
        Some(x) => {
            assert!(len == 1 && x == first);
            assert!(given.get() == 1);
        }
        None => assert!(given.get() == 0 || len == 0),
    }
    if len >= 2 {
        assert!(given.get() == 0);
    }
    kani::cover!(r.is_some());
    kani::cover!(r.is_none() && len == 1);
    kani::cover!(r.is_none() && len == 3);
}


//@ tier: thorough
//@ inst: Iterator = Src (counting source over <= 6 u8 items with an arbitrary lawful size_hint)
//@ funcs: box_iter::next_if_one, box_iter::map_with
//@ bounds: sources of length 0..=6, every lawful size_hint (lower slack <= 6, upper = exact + 0..=2 or unknown); all 7 outputs / the end taken one by one
//@ asserts: as c03_next_if_one_does_not_peek and c03_map_with_pulls_on_demand, with twice the stream length
#[kani::proof]
#[kani::unwind(9)]
fn c03_fast_paths_6_items() {
    let mut s = Src::any_upto(6);
    let (given, len, items) = (s.given_handle(), s.len(), s.items());
    let mut probe = s.clone();
    let before = given.get();
    let r = next_if_one(&mut probe);
    match r {
        Some(x) => assert!(len == 1 && x == items[0] && given.get() == before + 1),
        None => assert!(given.get() == before || len == 0),
    }
    if len >= 2 {
        assert!(given.get() == before);
    }
    let base = given.get();
    let x: u8 = kani::any();
    let mut it = map_with(s, x, |y, x| y ^ x);
    assert!(given.get() == base || (len == 1 && given.get() == base + 1));
    let mut i = 0;
    while i < 7 {
        let o = it.next();
        if i < len {
            assert!(o == Some(items[i] ^ x));
            assert!(given.get() == base + i + 1);
        } else {
            assert!(o.is_none());
        }
        i += 1;
    }
    kani::cover!(len == 6);
    kani::cover!(len == 1 && r.is_some());
    core::mem::forget(it);
}
