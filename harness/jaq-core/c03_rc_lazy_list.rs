// C03 — the lazily memoised list of fold inputs pulls its source one element at a time, once.
//@@ mount: jaq-core/src/rc_lazy_list.rs as verif_c03_rc_lazy_list
//@@ prop: C03
#![allow(dead_code, unused_imports)]
use super::*;
use crate::verif_support::Src;
use alloc::{vec, vec::Vec}; // for generated concrete-playback tests (no_std crate)

//@ tier: attempt
//@ timeout: 2400
//@ inst: T = u8, source = Src (counting source with an arbitrary lawful size_hint)
//@ funcs: rc_lazy_list::List::from_iter, List::next, Node::from_iter, List::clone
//@ bounds: sources of 0..=2 items; two clones of the list, the first advanced k <= 3 steps, then the second advanced 3 steps
//@ asserts: building the list pulls nothing; after k steps exactly min(k, len) items were pulled (never ahead of demand); a second traversal yields the same items without pulling the source again (memoised); both traversals yield the source's items in order
#[kani::proof]
#[kani::unwind(5)]
fn c03_lazy_list_pulls_once_on_demand() {
    let s = Src::any_upto(2);
    let (given, len, items) = (s.given_handle(), s.len(), s.items());
    let mut a = List::from_iter(s);
    assert!(given.get() == 0);
    let mut b = a.clone();
    let k: usize = kani::any();
    kani::assume(k <= 3);
    let mut i = 0;
    while i < k {
        let o = a.next();
        if i < len {
            assert!(o == Some(items[i]));
            assert!(given.get() == i + 1);
        } else {
            assert!(o.is_none());
            assert!(given.get() == len);
        }
        i += 1;
    }
    let before = given.get();
    let mut j = 0;
    while j < 3 {
        let o = b.next();
        if j < len {
            assert!(o == Some(items[j]));
        } else {
            assert!(o.is_none());
        }
        if j < k {
            assert!(given.get() == before);
        }
        j += 1;
    }
    assert!(given.get() == len);
    kani::cover!(k == 1 && len == 2);
    kani::cover!(k == 3 && len == 2);
    kani::cover!(k == 0 && len == 2);
    core::mem::forget((a, b));
}
