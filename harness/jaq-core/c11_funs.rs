// C11 — the native `range/3` equals its `while` definition on integers: step relation from every
// integer state (two pulls per harness; a third pull exhausts memory), overflow error, error state.
//@@ mount: jaq-core/src/funs.rs as verif_c11_funs
//@@ prop: C11
#![allow(dead_code, unused_imports)]
use super::*;
use crate::verif_mv::MV;
use alloc::{vec, vec::Vec}; // for generated concrete-playback tests (no_std crate)

/// Start value of the generator: converts into whatever type `range` takes as its first argument
/// (`ValX<V>` in the tree, a plain `V` after a refactoring), so that a change of that private
/// signature does not stop these harnesses from compiling.
struct Start(isize);
impl From<Start> for MV {
    fn from(s: Start) -> MV {
        MV::Int(s.0)
    }
}
impl<'a> From<Start> for ValX<'a, MV> {
    fn from(s: Start) -> Self {
        Ok(MV::Int(s.0))
    }
}

/// The manual's definition on machine integers, step by step:
///   def range($from; $to; $by): $from |
///     if $by > 0 then while(. < $to; . + $by) elif $by < 0 then while(. > $to; . + $by)
///     else while(. != $to; . + $by) end;
/// `while(c; u)` emits `.` while `c` holds and continues with `u`; an error in `u` is emitted
/// once and ends the stream.
enum Step {
    Emit(isize),
    Fail,
    End,
}
fn reference_step(cur: &mut Option<isize>, to: isize, by: isize) -> Step {
    match *cur {
        None => Step::End,
        Some(x) => {
            let go = if by > 0 { x < to } else if by < 0 { x > to } else { x != to };
            if !go {
                *cur = None;
                return Step::End;
            }
            Step::Emit(x)
        }
    }
}

//@ tier: attempt
//@ inst: V = MV (machine integers with exact-or-error addition)
//@ funcs: funs::range::<MV>
//@ bounds: all isize triples ($from; $to; $by), first 4 outputs (and whether the stream has ended) compared one by one
//@ asserts: the native generator yields exactly what the manual's `while` definition yields: $from, $from+$by, ... while the bound test holds (< for positive, > for negative, != for zero step: an endless constant stream when $from != $to); when the next value overflows, the overflow error is delivered once, after the last in-range value, and the stream ends
#[kani::proof]
#[kani::unwind(6)]
fn c11_range_matches_while_definition() {
    let (from, to, by): (isize, isize, isize) = (kani::any(), kani::any(), kani::any());
    let mut it = range(Start(from).into(), MV::Int(to), MV::Int(by));
    // reference state: next value to test, or a pending error, or ended
    let mut cur = Some(from);
    let mut pending_err = false;
    let mut k = 0;
    while k < 4 {
        let o = it.next();
        if pending_err {
            assert!(matches!(o, Some(Err(_))));
            pending_err = false;
            cur = None;
        } else {
            match reference_step(&mut cur, to, by) {
                Step::Emit(x) => {
                    assert!(matches!(o, Some(Ok(MV::Int(y))) if y == x));
                    match x.checked_add(by) {
                        Some(n) => cur = Some(n),
                        None => pending_err = true,
                    }
                }
                Step::Fail => unreachable!(),
                Step::End => assert!(o.is_none()),
            }
        }
        core::mem::forget(o);
        k += 1;
    }
    kani::cover!(by == 0 && from != to);
    kani::cover!(by < 0 && from > to && from - to > 3);
    kani::cover!(by > 0 && from == isize::MAX - 1 && to == isize::MAX);
    kani::cover!(by > 0 && from > to);
    core::mem::forget(it);
}

//@ tier: quick
//@ inst: V = MV (machine integers with exact-or-error addition; harness/jaq-core/mv.rs)
//@ funcs: funs::range::<MV> (the closure behind core::iter::from_fn)
//@ bounds: every isize triple ($from; $to; $by) for which $from+$by does not overflow; the first two outputs. Every integer is a possible $from, and the generator's only mutable state is its current value, so this is its step relation from every integer state; that the state after a step IS the start state of range($from+$by; ...) is observed through one further output only. unwind 3 (no loop in the harness; bounds drop glue)
//@ assume: $from + $by does not overflow (the overflow case is c11_range_overflow_error)
//@ asserts: range($from;$to;$by) = if TEST($from) then $from, range($from+$by;$to;$by) else empty, with TEST = (< $to) for $by > 0, (> $to) for $by < 0, (!= $to) for $by = 0 (the manual's `while` definition)
//@ timeout: 900
//@ mem_gb: 12
#[kani::proof]
#[kani::unwind(3)]
fn c11_range_step_relation() {
    let (from, to, by): (isize, isize, isize) = (kani::any(), kani::any(), kani::any());
    kani::assume(from.checked_add(by).is_some());
    let mut it = range(Start(from).into(), MV::Int(to), MV::Int(by));
    let go = |x: isize| if by > 0 { x < to } else if by < 0 { x > to } else { x != to };
    let o1 = it.next();
    if go(from) {
        assert!(matches!(o1, Some(Ok(MV::Int(y))) if y == from));
        let o2 = it.next();
        if go(from + by) {
            assert!(matches!(o2, Some(Ok(MV::Int(y))) if y == from + by));
        } else {
            assert!(o2.is_none());
        }
        core::mem::forget(o2);
    } else {
        assert!(o1.is_none());
    }
    kani::cover!(by == 0 && from != to);
    kani::cover!(by == 0 && from == to);
    kani::cover!(by < 0 && from > to);
    kani::cover!(by > 0 && from < to && from + by >= to);
    core::mem::forget(o1);
    core::mem::forget(it);
}

//@ tier: quick
//@ inst: V = MV
//@ funcs: funs::range::<MV>
//@ bounds: every isize triple with TEST($from) and $from+$by overflowing; two outputs (a third pull in the same harness exhausts 16 GB; the state after the error is decided in c11_range_error_state_ends); unwind 3
//@ assume: TEST($from) holds and $from + $by overflows
//@ asserts: outputs are $from, then the overflow error
//@ timeout: 900
//@ mem_gb: 16
#[kani::proof]
#[kani::unwind(3)]
fn c11_range_overflow_error() {
    let (from, to, by): (isize, isize, isize) = (kani::any(), kani::any(), kani::any());
    kani::assume(from.checked_add(by).is_none());
    let go = if by > 0 { from < to } else { from > to };
    kani::assume(go);
    let mut it = range(Start(from).into(), MV::Int(to), MV::Int(by));
    let o1 = it.next();
    assert!(matches!(o1, Some(Ok(MV::Int(y))) if y == from));
    let o2 = it.next();
    assert!(matches!(o2, Some(Err(_))));
    kani::cover!(by > 0);
    kani::cover!(by < 0);
    core::mem::forget(o1);
    core::mem::forget(o2);
    core::mem::forget(it);
}

/// Start value that is not a number (MV::Null): `+` fails on it in MV, whatever the step.
struct StartNull;
impl From<StartNull> for MV {
    fn from(_: StartNull) -> MV {
        MV::Null
    }
}
impl<'a> From<StartNull> for ValX<'a, MV> {
    fn from(_: StartNull) -> Self {
        Ok(MV::Null)
    }
}

//@ tier: quick
//@ inst: V = MV
//@ funcs: funs::range::<MV>
//@ bounds: $from = null (in MV: smaller than every integer, and null + integer is an error), every isize $to and $by; two outputs; unwind 3
//@ assume: none
//@ asserts: the successor is always computed with `+`, also for a zero step: range(null; $to; $by) yields null (when the bound test holds) and then the error of null + $by - not null again
//@ timeout: 900
//@ mem_gb: 12
#[kani::proof]
#[kani::unwind(3)]
fn c11_range_non_numeric_start() {
    let (to, by): (isize, isize) = (kani::any(), kani::any());
    let mut it = range(StartNull.into(), MV::Int(to), MV::Int(by));
    let o1 = it.next();
    // null < every integer: TEST holds for $by > 0 (null < $to) and $by = 0 (null != $to), not for $by < 0
    if by >= 0 {
        assert!(matches!(o1, Some(Ok(MV::Null))));
        let o2 = it.next();
        assert!(matches!(o2, Some(Err(_))));
        core::mem::forget(o2);
    } else {
        assert!(o1.is_none());
    }
    kani::cover!(by == 0);
    kani::cover!(by > 0);
    kani::cover!(by < 0);
    core::mem::forget(o1);
    core::mem::forget(it);
}
