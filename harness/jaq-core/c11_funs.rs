// C11 — the native `range/3` equals its `while` definition on integers.
//@@ mount: jaq-core/src/funs.rs as verif_c11_funs
//@@ prop: C11
#![allow(dead_code, unused_imports)]
use super::*;
use crate::verif_mv::MV;
use alloc::{vec, vec::Vec}; // for generated concrete-playback tests (no_std crate)

/// The manual's definition on machine integers, step by step:
///   def range($from; $to; $by): $from |
///     if $by > 0 then while(. < $to; . + $by) elif $by < 0 then while(. > $to; . + $by)
///     else while(. != $to; . + $by) end;
/// `while(c; u)` emits `.` while `c` holds and continues with `u`; an error in `u` is emitted
/// once and ends the stream.
enum Step {
    Emit(isize),
    Fail,
    End,
}
fn reference_step(cur: &mut Option<isize>, to: isize, by: isize) -> Step {
    match *cur {
        None => Step::End,
        Some(x) => {
            let go = if by > 0 { x < to } else if by < 0 { x > to } else { x != to };
            if !go {
                *cur = None;
                return Step::End;
            }
            Step::Emit(x)
        }
    }
}

//@ tier: attempt
//@ inst: V = MV (machine integers with exact-or-error addition)
//@ funcs: funs::range::<MV>
//@ bounds: all isize triples ($from; $to; $by), first 4 outputs (and whether the stream has ended) compared one by one
//@ asserts: the native generator yields exactly what the manual's `while` definition yields: $from, $from+$by, ... while the bound test holds (< for positive, > for negative, != for zero step: an endless constant stream when $from != $to); when the next value overflows, the overflow error is delivered once, after the last in-range value, and the stream ends
#[kani::proof]
#[kani::unwind(6)]
fn c11_range_matches_while_definition() {
    let (from, to, by): (isize, isize, isize) = (kani::any(), kani::any(), kani::any());
    let mut it = range(Ok(MV::Int(from)), MV::Int(to), MV::Int(by));
    // reference state: next value to test, or a pending error, or ended
    let mut cur = Some(from);
    let mut pending_err = false;
    let mut k = 0;
    while k < 4 {
        let o = it.next();
        if pending_err {
            assert!(matches!(o, Some(Err(_))));
            pending_err = false;
            cur = None;
        } else {
            match reference_step(&mut cur, to, by) {
                Step::Emit(x) => {
                    assert!(matches!(o, Some(Ok(MV::Int(y))) if y == x));
                    match x.checked_add(by) {
                        Some(n) => cur = Some(n),
                        None => pending_err = true,
                    }
                }
                Step::Fail => unreachable!(),
                Step::End => assert!(o.is_none()),
            }
        }
        core::mem::forget(o);
        k += 1;
    }
    kani::cover!(by == 0 && from != to);
    kani::cover!(by < 0 && from > to && from - to > 3);
    kani::cover!(by > 0 && from == isize::MAX - 1 && to == isize::MAX);
    kani::cover!(by > 0 && from > to);
    core::mem::forget(it);
}
