// C11 — the native counting combinators `limit`, `skip`, `first`, `last`: the REAL macros
// `limit!`, `skip!`, `first!`, `last!`, `while_gtz!` of funs.rs, instantiated with a harness-side
// context (`pop_fun` hands out a counting source as "the filter argument f", `pop_var` the count $n).
// The macros are written against `cv.0.pop_fun()`, `cv.0.pop_var()`, `f.$run((fc, cv.1))`, so the
// interpreter's `Ctx` is not needed to run them; everything between is the tree's code.
//
// Item type: `Result<u8, Error<MV>>` — chosen so that no other `dyn Iterator` in the crate has the
// same item type (CBMC resolves a virtual `next()` to every implementation of that signature; with a
// shared item type the candidates include the combinator itself and the encoding explodes, §2.3).
//@@ mount: jaq-core/src/funs.rs as verif_c11_limit
//@@ prop: C11
#![allow(dead_code, unused_imports)]
use super::*;
use crate::verif_mv::MV;
use crate::verif_support::Src;
use crate::Error;
use alloc::{vec, vec::Vec}; // for generated concrete-playback tests (no_std crate)
use core::sync::atomic::{AtomicUsize, Ordering::Relaxed};

type R = Result<u8, Error<MV>>;

/// items >= 0x80 stand for errors raised inside the stream
fn m_item(x: u8) -> R {
    if x >= 0x80 {
        Err(Error::new(MV::Int(x as isize)))
    } else {
        Ok(x)
    }
}
fn same_item(o: &Option<R>, x: u8) -> bool {
    match o {
        Some(Ok(y)) => x < 0x80 && *y == x,
        Some(Err(e)) => x >= 0x80 && *e == Error::new(MV::Int(x as isize)),
        None => false,
    }
}

struct SrcR(Src);
impl Iterator for SrcR {
    type Item = R;
    fn next(&mut self) -> Option<R> {
        self.0.next().map(m_item)
    }
}
/// number of times the filter argument has been started (`f.run(..)` called)
static STARTED: AtomicUsize = AtomicUsize::new(0);
struct FakeF(Src);
impl FakeF {
    fn run(self, _cv: ((), MV)) -> SrcR {
        STARTED.fetch_add(1, Relaxed);
        SrcR(self.0)
    }
}
struct FakeVars {
    f: Option<FakeF>,
    n: MV,
}
impl FakeVars {
    fn pop_fun(&mut self) -> (FakeF, ()) {
        (self.f.take().unwrap(), ())
    }
    fn pop_var(&mut self) -> MV {
        self.n.clone()
    }
}

fn real_limit() -> impl FnOnce((FakeVars, MV)) -> BoxIter<'static, R> {
    limit!(run)
}
fn real_first() -> impl FnOnce((FakeVars, MV)) -> BoxIter<'static, R> {
    first!(run)
}
fn real_last() -> impl FnOnce((FakeVars, MV)) -> BoxIter<'static, R> {
    last!(run)
}

//@ tier: quick
//@ inst: f = counting source of <= 3 items (u8; values >= 0x80 are errors), V = MV
//@ funcs: funs::limit! (run instance), funs::while_gtz!
//@ bounds: every count $n in isize; every stream of 0..=3 items, each an output or an error; 5 pulls of the result; unwind 6
//@ assume: none
//@ asserts: limit($n; f) delivers exactly the first min($n, length) items of f in order (errors are items) and then ends; $n <= 0 delivers nothing and never starts f; after the k-th output exactly k items of f have been pulled (the ($n+1)-th is never computed), and pulls after the end do not touch f
//@ timeout: 900
#[kani::proof]
#[kani::unwind(6)]
fn c11_limit_takes_n_on_demand() {
    let n: isize = kani::any();
    let s = Src::any_exact(3);
    let (given, calls, len, items) = (s.given_handle(), s.calls_handle(), s.len(), s.items());
    let cv = (FakeVars { f: Some(FakeF(s)), n: MV::Int(n) }, MV::Null);
    let s0 = STARTED.load(Relaxed);
    let mut it = real_limit()(cv);
    // a non-positive count never starts f (starting a filter may already consume an input)
    assert!(n > 0 || STARTED.load(Relaxed) == s0);
    let want = if n <= 0 { 0 } else if (n as usize) < len { n as usize } else { len };
    let mut k = 0;
    while k < 5 {
        let o = it.next();
        if k < want {
            assert!(same_item(&o, items[k]));
            assert!(given.get() == k + 1);
            assert!(calls.get() == k + 1);
        } else {
            assert!(o.is_none());
            assert!(given.get() == want);
            // the source is asked again only if it ended before the count did
            assert!(calls.get() <= want + (k + 1 - want));
            if n <= 0 || (n as usize) <= len {
                assert!(calls.get() == want);
            }
        }
        core::mem::forget(o);
        k += 1;
    }
    kani::cover!(n == 2 && len == 3);
    kani::cover!(n == 3 && len == 1);
    kani::cover!(n < 0 && len == 2);
    kani::cover!(n == 1 && len == 2 && items[0] >= 0x80);
    core::mem::forget(it);
}

//@ tier: quick
//@ inst: as c11_limit_takes_n_on_demand
//@ funcs: funs::first! (run instance), funs::last! (run instance), funs::once_or_empty
//@ bounds: every stream of 0..=3 items, each an output or an error; unwind 6
//@ assume: none
//@ asserts: first(f) is the first item of f, if any, and pulls f exactly once; last(f) is the last item if f has no error, nothing for the empty stream, and otherwise the FIRST error of f (the stream is not read beyond it)
//@ timeout: 900
#[kani::proof]
#[kani::unwind(6)]
fn c11_first_last() {
    let s = Src::any_exact(3);
    let s2 = s.clone();
    let (len, items) = (s.len(), s.items());
    let calls = s.calls_handle();
    let base = calls.get();
    let mut it = real_first()((FakeVars { f: Some(FakeF(s)), n: MV::Null }, MV::Null));
    let o = it.next();
    if len == 0 {
        assert!(o.is_none());
    } else {
        assert!(same_item(&o, items[0]));
    }
    assert!(calls.get() == base + 1);
    let o2 = it.next();
    assert!(o2.is_none());
    assert!(calls.get() == base + 1);
    core::mem::forget((o, o2));

    let before = calls.get();
    let mut lt = real_last()((FakeVars { f: Some(FakeF(s2)), n: MV::Null }, MV::Null));
    let l = lt.next();
    // position of the first error, if any
    let mut e = len;
    let mut i = 0;
    while i < len {
        if items[i] >= 0x80 && e == len {
            e = i;
        }
        i += 1;
    }
    if e < len {
        assert!(same_item(&l, items[e]));
        assert!(calls.get() == before + e + 1);
    } else if len == 0 {
        assert!(l.is_none());
    } else {
        assert!(same_item(&l, items[len - 1]));
    }
    let l2 = lt.next();
    assert!(l2.is_none());
    kani::cover!(len == 3 && e == 1);
    kani::cover!(len == 3 && e == 3);
    kani::cover!(len == 0);
    core::mem::forget((l, l2));
    core::mem::forget(it);
    core::mem::forget(lt);
}

struct FakeFB(Src);
impl FakeFB {
    // a concrete box: `return iter` in `skip!` coerces it to the boxed trait object, while the
    // `iter.next()` calls inside the combinator stay statically dispatched (see the file header)
    fn run(self, _cv: ((), MV)) -> Box<SrcR> {
        Box::new(SrcR(self.0))
    }
}
struct FakeVarsB {
    f: Option<FakeFB>,
    n: MV,
}
impl FakeVarsB {
    fn pop_fun(&mut self) -> (FakeFB, ()) {
        (self.f.take().unwrap(), ())
    }
    fn pop_var(&mut self) -> MV {
        self.n.clone()
    }
}
fn real_skip() -> impl FnOnce((FakeVarsB, MV)) -> BoxIter<'static, R> {
    skip!(run)
}

/// skip($n; f) on a stream of <= 3 items, 5 pulls, against: the errors among the first $n items
/// (in order), then every item after the first $n.
fn skip_case(n: isize) {
    let s = Src::any_exact(3);
    let (given, len, items) = (s.given_handle(), s.len(), s.items());
    let cv = (FakeVarsB { f: Some(FakeFB(s)), n: MV::Int(n) }, MV::Null);
    let mut it = real_skip()(cv);
    assert!(given.get() == 0);
    let drop = if n <= 0 { 0 } else if (n as usize) < len { n as usize } else { len };
    let mut pos = 0; // next source position to consider
    let mut k = 0;
    while k < 5 {
        let o = it.next();
        while pos < drop && items[pos] < 0x80 {
            pos += 1;
        }
        if pos < len {
            assert!(same_item(&o, items[pos]));
            pos += 1;
            assert!(given.get() == pos);
        } else {
            assert!(o.is_none());
            assert!(given.get() == len);
        }
        core::mem::forget(o);
        k += 1;
    }
    kani::cover!(len == 3 && items[0] < 0x80);
    kani::cover!(len == 3 && items[0] >= 0x80 && items[1] < 0x80);
    kani::cover!(len == 0);
    core::mem::forget(it);
}

//@ tier: quick
//@ inst: f = boxed counting source of <= 3 items (u8; values >= 0x80 are errors), V = MV
//@ funcs: funs::skip! (run instance), funs::while_gtz!
//@ bounds: $n = 0 (a literal: with a symbolic count the result is one of two differently shaped heap objects and the second pull exhausts 12 GB; the counting arithmetic is decided for every $n in c11_limit_takes_n_on_demand); every stream of 0..=3 items, each an output or an error; 5 pulls; unwind 6
//@ assume: none
//@ asserts: skip($n; f) delivers, in order, the errors among the first $n items of f (an error inside the skipped part is reported, not swallowed) and then every item after the first $n; $n <= 0 delivers f unchanged; nothing is pulled from f before the first pull of the result
//@ timeout: 600
#[kani::proof]
#[kani::unwind(6)]
fn c11_skip_0() {
    skip_case(0);
}

//@ tier: quick
//@ inst: f = boxed counting source of <= 3 items (u8; values >= 0x80 are errors), V = MV
//@ funcs: funs::skip! (run instance), funs::while_gtz!
//@ bounds: $n = 1 (a literal: with a symbolic count the result is one of two differently shaped heap objects and the second pull exhausts 12 GB; the counting arithmetic is decided for every $n in c11_limit_takes_n_on_demand); every stream of 0..=3 items, each an output or an error; 5 pulls; unwind 6
//@ assume: none
//@ asserts: skip($n; f) delivers, in order, the errors among the first $n items of f (an error inside the skipped part is reported, not swallowed) and then every item after the first $n; $n <= 0 delivers f unchanged; nothing is pulled from f before the first pull of the result
//@ timeout: 600
#[kani::proof]
#[kani::unwind(6)]
fn c11_skip_1() {
    skip_case(1);
}

//@ tier: quick
//@ inst: f = boxed counting source of <= 3 items (u8; values >= 0x80 are errors), V = MV
//@ funcs: funs::skip! (run instance), funs::while_gtz!
//@ bounds: $n = -1 (a literal: with a symbolic count the result is one of two differently shaped heap objects and the second pull exhausts 12 GB; the counting arithmetic is decided for every $n in c11_limit_takes_n_on_demand); every stream of 0..=3 items, each an output or an error; 5 pulls; unwind 6
//@ assume: none
//@ asserts: skip($n; f) delivers, in order, the errors among the first $n items of f (an error inside the skipped part is reported, not swallowed) and then every item after the first $n; $n <= 0 delivers f unchanged; nothing is pulled from f before the first pull of the result
//@ timeout: 600
#[kani::proof]
#[kani::unwind(6)]
fn c11_skip_neg() {
    skip_case(-1);
}

//@ tier: quick
//@ inst: f = boxed counting source of <= 3 items (u8; values >= 0x80 are errors), V = MV
//@ funcs: funs::skip! (run instance), funs::while_gtz!
//@ bounds: $n = 2 (a literal: with a symbolic count the result is one of two differently shaped heap objects and the second pull exhausts 12 GB; the counting arithmetic is decided for every $n in c11_limit_takes_n_on_demand); every stream of 0..=3 items, each an output or an error; 5 pulls; unwind 6
//@ assume: none
//@ asserts: skip($n; f) delivers, in order, the errors among the first $n items of f (an error inside the skipped part is reported, not swallowed) and then every item after the first $n; $n <= 0 delivers f unchanged; nothing is pulled from f before the first pull of the result
//@ timeout: 600
#[kani::proof]
#[kani::unwind(6)]
fn c11_skip_2() {
    skip_case(2);
}

//@ tier: quick
//@ inst: f = boxed counting source of <= 3 items (u8; values >= 0x80 are errors), V = MV
//@ funcs: funs::skip! (run instance), funs::while_gtz!
//@ bounds: $n = 3 (a literal: with a symbolic count the result is one of two differently shaped heap objects and the second pull exhausts 12 GB; the counting arithmetic is decided for every $n in c11_limit_takes_n_on_demand); every stream of 0..=3 items, each an output or an error; 5 pulls; unwind 6
//@ assume: none
//@ asserts: skip($n; f) delivers, in order, the errors among the first $n items of f (an error inside the skipped part is reported, not swallowed) and then every item after the first $n; $n <= 0 delivers f unchanged; nothing is pulled from f before the first pull of the result
//@ timeout: 600
#[kani::proof]
#[kani::unwind(6)]
fn c11_skip_3() {
    skip_case(3);
}

//@ tier: quick
//@ inst: f = boxed counting source of <= 3 items (u8; values >= 0x80 are errors), V = MV
//@ funcs: funs::skip! (run instance), funs::while_gtz!
//@ bounds: $n = 4 (a literal: with a symbolic count the result is one of two differently shaped heap objects and the second pull exhausts 12 GB; the counting arithmetic is decided for every $n in c11_limit_takes_n_on_demand); every stream of 0..=3 items, each an output or an error; 5 pulls; unwind 6
//@ assume: none
//@ asserts: skip($n; f) delivers, in order, the errors among the first $n items of f (an error inside the skipped part is reported, not swallowed) and then every item after the first $n; $n <= 0 delivers f unchanged; nothing is pulled from f before the first pull of the result
//@ timeout: 600
#[kani::proof]
#[kani::unwind(6)]
fn c11_skip_4() {
    skip_case(4);
}

//@ tier: quick
//@ inst: f = boxed counting source of <= 3 items (u8; values >= 0x80 are errors), V = MV
//@ funcs: funs::skip! (run instance), funs::while_gtz!
//@ bounds: $n = isize::MAX (a literal: with a symbolic count the result is one of two differently shaped heap objects and the second pull exhausts 12 GB; the counting arithmetic is decided for every $n in c11_limit_takes_n_on_demand); every stream of 0..=3 items, each an output or an error; 5 pulls; unwind 6
//@ assume: none
//@ asserts: skip($n; f) delivers, in order, the errors among the first $n items of f (an error inside the skipped part is reported, not swallowed) and then every item after the first $n; $n <= 0 delivers f unchanged; nothing is pulled from f before the first pull of the result
//@ timeout: 600
#[kani::proof]
#[kani::unwind(6)]
fn c11_skip_max() {
    skip_case(isize::MAX);
}

//@ tier: thorough
//@ inst: f = counting source of <= 6 items (u8; values >= 0x80 are errors), V = MV
//@ funcs: funs::limit! (run instance), funs::while_gtz!
//@ bounds: every count $n in isize; every stream of 0..=6 items, each an output or an error; 8 pulls of the result; unwind 9
//@ assume: none
//@ asserts: as c11_limit_takes_n_on_demand, with twice the stream length
//@ timeout: 2400
#[kani::proof]
#[kani::unwind(9)]
fn c11_limit_takes_n_on_demand_6() {
    let n: isize = kani::any();
    let s = Src::any_exact(6);
    let (given, calls, len, items) = (s.given_handle(), s.calls_handle(), s.len(), s.items());
    let cv = (FakeVars { f: Some(FakeF(s)), n: MV::Int(n) }, MV::Null);
    let mut it = real_limit()(cv);
    let want = if n <= 0 { 0 } else if (n as usize) < len { n as usize } else { len };
    let mut k = 0;
    while k < 8 {
        let o = it.next();
        if k < want {
            assert!(same_item(&o, items[k]));
            assert!(given.get() == k + 1);
            assert!(calls.get() == k + 1);
        } else {
            assert!(o.is_none());
            assert!(given.get() == want);
            if n <= 0 || (n as usize) <= len {
                assert!(calls.get() == want);
            }
        }
        core::mem::forget(o);
        k += 1;
    }
    kani::cover!(n == 5 && len == 6);
    kani::cover!(n == 6 && len == 4);
    kani::cover!(n < 0 && len == 6);
    core::mem::forget(it);
}

// ---- non-integer counts -----------------------------------------------------------------------
// The counting macros are written against `n <= 0.into()`, `*i > 0.into()`, `i - 1.into()`; any type
// with these operations can be the count. `Half(h)` is the number h/2, so that counts strictly
// between two integers (0.5, 1.5, ...) are covered as well: `limit(0.5; f)` is one item (the
// manual's foreach definition decrements and tests `<= 0` afterwards), `skip(0.5; f)` drops one.
#[derive(Clone, Copy, PartialEq, PartialOrd)]
struct Half(isize);
impl From<isize> for Half {
    fn from(i: isize) -> Self {
        Half(i * 2) // only the literals 0 and 1 of the macros
    }
}
impl core::ops::Sub for Half {
    type Output = Result<Half, Error<MV>>;
    fn sub(self, r: Self) -> Self::Output {
        self.0.checked_sub(r.0).map(Half).ok_or(Error::new(MV::Null))
    }
}
struct FakeVarsH {
    f: Option<FakeF>,
    n: Half,
}
impl FakeVarsH {
    fn pop_fun(&mut self) -> (FakeF, ()) {
        (self.f.take().unwrap(), ())
    }
    fn pop_var(&mut self) -> Half {
        self.n
    }
}
fn real_limit_h() -> impl FnOnce((FakeVarsH, MV)) -> BoxIter<'static, R> {
    limit!(run)
}
struct FakeVarsHB {
    f: Option<FakeFB>,
    n: Half,
}
impl FakeVarsHB {
    fn pop_fun(&mut self) -> (FakeFB, ()) {
        (self.f.take().unwrap(), ())
    }
    fn pop_var(&mut self) -> Half {
        self.n
    }
}
fn real_skip_h() -> impl FnOnce((FakeVarsHB, MV)) -> BoxIter<'static, R> {
    skip!(run)
}
/// number of items `limit` takes / `skip` drops for the count h/2: the least integer >= h/2, at least 0
fn m_ceil_half(h: isize) -> usize {
    if h <= 0 {
        0
    } else {
        (h as usize + 1) / 2
    }
}

//@ tier: quick
//@ inst: f = counting source of <= 3 items (u8; values >= 0x80 are errors); the count is the harness type Half (h/2 for every isize h: all integers and all half-integers of that range)
//@ funcs: funs::limit! (run instance), funs::while_gtz!
//@ bounds: every count h/2 with h in isize; every stream of 0..=3 items, each an output or an error; 5 pulls of the result; unwind 6
//@ assume: none
//@ asserts: limit($n; f) delivers exactly the first min(ceil($n), length) items of f and pulls f once per output: a count strictly between 0 and 1 yields one item, as the manual's foreach definition does
//@ timeout: 900
#[kani::proof]
#[kani::unwind(6)]
fn c11_limit_fractional_count() {
    let h: isize = kani::any();
    let s = Src::any_exact(3);
    let (given, calls, len, items) = (s.given_handle(), s.calls_handle(), s.len(), s.items());
    let cv = (FakeVarsH { f: Some(FakeF(s)), n: Half(h) }, MV::Null);
    let s0 = STARTED.load(Relaxed);
    let mut it = real_limit_h()(cv);
    assert!(h > 0 || STARTED.load(Relaxed) == s0);
    let c = m_ceil_half(h);
    let want = if c < len { c } else { len };
    let mut k = 0;
    while k < 5 {
        let o = it.next();
        if k < want {
            assert!(same_item(&o, items[k]));
            assert!(given.get() == k + 1);
            assert!(calls.get() == k + 1);
        } else {
            assert!(o.is_none());
            assert!(given.get() == want);
            if c <= len {
                assert!(calls.get() == want);
            }
        }
        core::mem::forget(o);
        k += 1;
    }
    kani::cover!(h == 1 && len == 3);
    kani::cover!(h == 3 && len == 3);
    kani::cover!(h == 4 && len == 3);
    kani::cover!(h < 0 && len == 2);
    core::mem::forget(it);
}

fn skip_case_h(h: isize) {
    let s = Src::any_exact(3);
    let (given, len, items) = (s.given_handle(), s.len(), s.items());
    let cv = (FakeVarsHB { f: Some(FakeFB(s)), n: Half(h) }, MV::Null);
    let mut it = real_skip_h()(cv);
    assert!(given.get() == 0);
    let c = m_ceil_half(h);
    let drop = if c < len { c } else { len };
    let mut pos = 0;
    let mut k = 0;
    while k < 5 {
        let o = it.next();
        while pos < drop && items[pos] < 0x80 {
            pos += 1;
        }
        if pos < len {
            assert!(same_item(&o, items[pos]));
            pos += 1;
            assert!(given.get() == pos);
        } else {
            assert!(o.is_none());
            assert!(given.get() == len);
        }
        core::mem::forget(o);
        k += 1;
    }
    kani::cover!(len == 3 && items[0] < 0x80);
    kani::cover!(len == 3 && items[0] >= 0x80 && items[1] < 0x80);
    kani::cover!(len == 0);
    core::mem::forget(it);
}

//@ tier: quick
//@ inst: f = boxed counting source of <= 3 items; the count is Half
//@ funcs: funs::skip! (run instance), funs::while_gtz!
//@ bounds: $n = 0.5 (literal); every stream of 0..=3 items, each an output or an error; 5 pulls; unwind 6
//@ assume: none
//@ asserts: skip(0.5; f) drops exactly one item (and reports it if it is an error): together with c11_limit_fractional_count, limit ++ skip = f for counts between 0 and 1
//@ timeout: 600
#[kani::proof]
#[kani::unwind(6)]
fn c11_skip_half() {
    skip_case_h(1);
}

//@ tier: quick
//@ inst: f = boxed counting source of <= 3 items; the count is Half
//@ funcs: funs::skip! (run instance), funs::while_gtz!
//@ bounds: $n = 1.5 (literal); every stream of 0..=3 items, each an output or an error; 5 pulls; unwind 6
//@ assume: none
//@ asserts: skip(1.5; f) drops exactly two items (reporting errors among them)
//@ timeout: 600
#[kani::proof]
#[kani::unwind(6)]
fn c11_skip_three_halves() {
    skip_case_h(3);
}

/// thorough variant of skip_case: streams of <= 5 items, 7 pulls
fn skip_case_5(n: isize) {
    let s = Src::any_exact(5);
    let (given, len, items) = (s.given_handle(), s.len(), s.items());
    let cv = (FakeVarsB { f: Some(FakeFB(s)), n: MV::Int(n) }, MV::Null);
    let mut it = real_skip()(cv);
    assert!(given.get() == 0);
    let drop = if n <= 0 { 0 } else if (n as usize) < len { n as usize } else { len };
    let mut pos = 0;
    let mut k = 0;
    while k < 7 {
        let o = it.next();
        while pos < drop && items[pos] < 0x80 {
            pos += 1;
        }
        if pos < len {
            assert!(same_item(&o, items[pos]));
            pos += 1;
            assert!(given.get() == pos);
        } else {
            assert!(o.is_none());
            assert!(given.get() == len);
        }
        core::mem::forget(o);
        k += 1;
    }
    kani::cover!(len == 5 && items[0] < 0x80);
    kani::cover!(len == 5 && items[0] >= 0x80 && items[1] < 0x80);
    kani::cover!(len == 0);
    core::mem::forget(it);
}

//@ tier: thorough
//@ inst: f = boxed counting source of <= 5 items (u8; values >= 0x80 are errors), V = MV
//@ funcs: funs::skip! (run instance), funs::while_gtz!
//@ bounds: $n = 2 (literal); every stream of 0..=5 items, each an output or an error; 7 pulls; unwind 8
//@ assume: none
//@ asserts: as c11_skip_2 on longer streams
//@ timeout: 2400
//@ mem_gb: 16
#[kani::proof]
#[kani::unwind(8)]
fn c11_skip_2_of_5() {
    skip_case_5(2);
}

//@ tier: thorough
//@ inst: f = boxed counting source of <= 5 items (u8; values >= 0x80 are errors), V = MV
//@ funcs: funs::skip! (run instance), funs::while_gtz!
//@ bounds: $n = 4 (literal); every stream of 0..=5 items, each an output or an error; 7 pulls; unwind 8
//@ assume: none
//@ asserts: as c11_skip_4 on longer streams
//@ timeout: 2400
//@ mem_gb: 16
#[kani::proof]
#[kani::unwind(8)]
fn c11_skip_4_of_5() {
    skip_case_5(4);
}
