// C11 / C03 — the reduce/foreach engine `fold::fold`, first output only, with pointer-free stream types (counters are
// atomic statics, not Rc<Cell>; the crate forbids unsafe code): the explicit stack is a Vec whose elements are moved on growth, and CBMC
// encodes moved pointers byte by byte.
//@@ mount: jaq-core/src/fold.rs as verif_c11_fold2
//@@ prop: C11
#![allow(dead_code, unused_imports, static_mut_refs)]
use super::*;
use alloc::boxed::Box;
use core::sync::atomic::{AtomicUsize, Ordering::Relaxed};
use alloc::{vec, vec::Vec}; // for generated concrete-playback tests (no_std crate)

static GIVEN: AtomicUsize = AtomicUsize::new(0); // update results handed out
static TAKEN: AtomicUsize = AtomicUsize::new(0); // input items handed out

#[derive(Clone)]
struct In {
    items: [u8; 2],
    len: usize,
    pos: usize,
}
impl Iterator for In {
    type Item = Result<u8, u8>;
    fn next(&mut self) -> Option<Self::Item> {
        if self.pos < self.len {
            let x = self.items[self.pos];
            self.pos += 1;
            TAKEN.fetch_add(1, Relaxed);
            Some(Ok(x))
        } else {
            None
        }
    }
}
/// Update stream of `foreach xs as $x (init; UPDATE)`: for input item x and state acc it yields
/// fan(x) <= 2 new states acc + x + j (wrapping).
struct Upd {
    base: u8,
    n: usize,
    j: usize,
}
impl Iterator for Upd {
    type Item = Result<u8, u8>;
    fn next(&mut self) -> Option<Self::Item> {
        if self.j < self.n {
            let y = self.base.wrapping_add(self.j as u8);
            self.j += 1;
            GIVEN.fetch_add(1, Relaxed);
            Some(Ok(y))
        } else {
            None
        }
    }
    fn size_hint(&self) -> (usize, Option<usize>) {
        (self.n - self.j, Some(self.n - self.j))
    }
}
fn fan(x: u8) -> usize {
    core::cmp::min((x & 3) as usize, 2)
}

fn foreach_first_output(items: [u8; 2], len: usize, init: u8) {
    let xs = In { items, len, pos: 0 };
    let f = move |x: u8, acc: u8| -> Results<'static, u8, u8> {
        Box::new(Upd { base: acc.wrapping_add(x), n: fan(x), j: 0 })
    };
    let g0 = GIVEN.load(Relaxed);
    let t0 = TAKEN.load(Relaxed);
    let mut it = fold(xs, init, f, |x| *x, |_x, y: &u8| Some(*y), |_y| None::<u8>);
    assert!(GIVEN.load(Relaxed) == g0 && TAKEN.load(Relaxed) == t0);
    let n0 = if len > 0 { fan(items[0]) } else { 0 };
    let o = it.next();
    if n0 > 0 {
        assert!(o == Some(Ok(init.wrapping_add(items[0]))));
        assert!(GIVEN.load(Relaxed) == g0 + 1);
        assert!(TAKEN.load(Relaxed) == t0 + 1);
    } else {
        assert!(o.is_none());
        assert!(GIVEN.load(Relaxed) == g0);
    }
    core::mem::forget(it);
}

//@ tier: quick
//@ inst: T = U = TC = UC = E = u8; xs = pointer-free source of <= 1 item; update yields 0..=2 states per item
//@ funcs: fold::fold (foreach mode: every intermediate state is emitted)
//@ bounds: input streams of 0..=1 items, update fan-out 0..=2, arbitrary init; the FIRST pull only (a second pull exhausts 12 GB: the explicit stack is a Vec of (iterator, Box<dyn Iterator>) pairs); unwind 4
//@ assume: none
//@ asserts: the first output of `foreach xs as $x (init; UPDATE)` is the first result of UPDATE on the first item, delivered after exactly ONE update result and ONE input item have been computed (the second update result is not evaluated before the first is delivered); no update result => no output
//@ timeout: 900
//@ mem_gb: 12
//@ native_replay: c11_foreach_first_output_on_demand_native_enumeration
#[kani::proof]
#[kani::unwind(4)]
fn c11_foreach_first_output_on_demand() {
    let items: [u8; 2] = kani::any();
    let len: usize = kani::any();
    kani::assume(len <= 1);
    let init: u8 = kani::any();
    let n0 = if len > 0 { fan(items[0]) } else { 0 };
    kani::cover!(len == 0);
    kani::cover!(len == 1 && n0 == 2);
    kani::cover!(len == 1 && n0 == 0);
    foreach_first_output(items, len, init);
}

/// Native run of the same body over the harness's whole input space that matters (first item: all
/// 256 values, length 0..=1, two initial states): used by the driver only when Kani's concrete-playback
/// run of a reported failure exceeds its caps, to find a concrete input that reproduces it natively.
#[test]
fn c11_foreach_first_output_on_demand_native_enumeration() {
    for len in 0..=1usize {
        for x in 0..=255u8 {
            for init in [0u8, 200] {
                foreach_first_output([x, 0], len, init);
            }
        }
    }
}
