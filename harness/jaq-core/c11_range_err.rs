// C11 — `range/3` started in its error state (own file: it needs the tree's signature
// `range(from: ValX<V>, ..)`; bin/check retries each file separately when a crate build fails).
//@@ mount: jaq-core/src/funs.rs as verif_c11_range_err
//@@ prop: C11
#![allow(dead_code, unused_imports)]
use super::*;
use crate::verif_mv::MV;
use alloc::{vec, vec::Vec}; // for generated concrete-playback tests (no_std crate)

//@ tier: quick
//@ inst: V = MV
//@ funcs: funs::range::<MV>
//@ bounds: the generator started in its error state (a pending error as $from), every isize $to and $by; two outputs; unwind 3
//@ assume: none
//@ asserts: a pending error is delivered once and then the stream ends (the state c11_range_overflow_error leaves behind is such an error state)
//@ timeout: 900
//@ mem_gb: 16
#[kani::proof]
#[kani::unwind(3)]
fn c11_range_error_state_ends() {
    let (to, by): (isize, isize) = (kani::any(), kani::any());
    let e: isize = kani::any();
    let mut it = range(Err(Exn::from(Error::new(MV::Int(e)))), MV::Int(to), MV::Int(by));
    let o1 = it.next();
    assert!(matches!(o1, Some(Err(_))));
    let o2 = it.next();
    assert!(o2.is_none());
    kani::cover!(by > 0);
    kani::cover!(by == 0);
    core::mem::forget(o1);
    core::mem::forget(o2);
    core::mem::forget(it);
}
