// C11 / C03 — the reduce/foreach engine: outputs equal the nested-loop expansion and the update
// stream is pulled strictly on demand.
//@@ mount: jaq-core/src/fold.rs as verif_c11_fold
//@@ prop: C11
#![allow(dead_code, unused_imports)]
use super::*;
use crate::verif_support::Src;
use alloc::boxed::Box;
use alloc::rc::Rc;
use alloc::{vec, vec::Vec}; // for generated concrete-playback tests (no_std crate)
use core::cell::Cell;

/// Update stream of `foreach xs as $x (init; UPDATE)`: for input item x and state acc it yields
/// fan(x) <= 2 new states acc + x + j (wrapping), counting every item it hands out.
struct Upd {
    base: u8,
    n: usize,
    j: usize,
    given: Rc<Cell<usize>>,
}
impl Iterator for Upd {
    type Item = Result<u8, u8>;
    fn next(&mut self) -> Option<Self::Item> {
        if self.j < self.n {
            let y = self.base.wrapping_add(self.j as u8);
            self.j += 1;
            self.given.set(self.given.get() + 1);
            Some(Ok(y))
        } else {
            None
        }
    }
}
fn fan(x: u8) -> usize {
    core::cmp::min((x & 3) as usize, 2)
}

//@ tier: attempt
//@ inst: T = U = TC = UC = E = u8; xs = counting source of <= 2 items; update yields 0..=2 states per item
//@ funcs: fold::fold (foreach mode: every intermediate state is emitted)
//@ bounds: input streams of 0..=2 items, update fan-out 0..=2 per item (so 0..=6 outputs), all outputs and the end taken one by one and checked after each
//@ asserts: the outputs are exactly those of the nested-loop expansion `xs[0] as $x | UPDATE as $y | $y, (xs[1] as $x | UPDATE ...)` in that order; after the k-th output exactly k update results have been pulled (output k+1 is not evaluated before output k is delivered)
#[kani::proof]
#[kani::unwind(6)]
fn c11_foreach_matches_nested_loops_on_demand() {
    let xs = Src::any_exact(1);
    let (len, items) = (xs.len(), xs.items());
    let init: u8 = kani::any();
    let given = Rc::new(Cell::new(0usize));
    let g2 = given.clone();
    let f = move |x: u8, acc: u8| -> Results<'static, u8, u8> {
        Box::new(Upd { base: acc.wrapping_add(x), n: fan(x), j: 0, given: g2.clone() })
    };
    let mut it = fold(xs.map(Ok::<u8, u8>), init, f, |x| *x, |_x, y: &u8| Some(*y), |_y| None::<u8>);
    // reference: nested loops over (j0, j1)
    let n0 = if len > 0 { fan(items[0]) } else { 0 };
    let n1 = if len > 1 { fan(items[1]) } else { 0 };
    let mut k = 0usize;
    let mut j0 = 0;
    while j0 < n0 {
        let y0 = init.wrapping_add(items[0]).wrapping_add(j0 as u8);
        let o = it.next();
        k += 1;
        assert!(o == Some(Ok(y0)));
        assert!(given.get() == k);
        let mut j1 = 0;
        while j1 < n1 {
            let y1 = y0.wrapping_add(items[1]).wrapping_add(j1 as u8);
            let o = it.next();
            k += 1;
            assert!(o == Some(Ok(y1)));
            assert!(given.get() == k);
            j1 += 1;
        }
        j0 += 1;
    }
    assert!(it.next().is_none());
    assert!(given.get() == k);
    kani::cover!(len == 0);
    kani::cover!(len == 1 && n0 == 2);
}
