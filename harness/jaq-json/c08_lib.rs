// C08 — documented kind order on scalar values; eq/cmp/hash coherence at `Val` level.
//@@ mount: jaq-json/src/lib.rs as verif_c08_lib
//@@ prop: C08
#![allow(dead_code, unused_imports)]
use super::*;
use alloc::{vec, vec::Vec}; // for generated concrete-playback tests (no_std crate)
use core::cmp::Ordering::{self, *};
use core::hash::{Hash, Hasher};

const KINDS: u8 = 7;
/// A scalar of the given CONCRETE kind with symbolic payload, and its rank in the documented
/// order null(0) < false(1) < true(2) < numbers(3) < strings(4). The kind is concrete so that
/// symbolic execution prunes the array/object arms (recursive comparison, sorting).
fn scalar(k: u8) -> (Val, u8) {
    match k {
        0 => (Val::Null, 0),
        1 => (Val::Bool(false), 1),
        2 => (Val::Bool(true), 2),
        3 => (Val::Num(Num::Int(kani::any())), 3),
        4 => {
            let f: f64 = kani::any();
            kani::assume(!f.is_nan());
            (Val::Num(Num::Float(f)), 3)
        }
        5 => (Val::utf8_str(Bytes::new()), 4),
        _ => (Val::byte_str(Bytes::new()), 4),
    }
}
fn is_num(k: u8) -> bool {
    k == 3 || k == 4
}

//@ tier: quick
//@ funcs: <Val as Ord>::cmp, <Val as PartialEq>::eq
//@ bounds: all ordered kind pairs (case-split; payloads symbolic) over: null, false, true, any Int, non-NaN Float, empty text string, empty byte string -- EXCEPT number-vs-number pairs, which are decided on `Num` directly in c08_num.rs (inside a `Val` the solver cannot fold the niche-encoded `Num` tag and symbolically executes decimal parsing and big-integer arms: undecided at 300 s)
//@ assume: no NaN; strings restricted to the empty string (content order is Bytes::cmp, outside the claim)
//@ asserts: lower kind rank => Less (null < false < true < number < string); same rank (non-number) => Equal; antisymmetry; eq <=> cmp == Equal; text and byte strings of equal content are equal
#[kani::proof]
#[kani::unwind(9)]
fn c08_val_kind_ladder() {
    let mut ka = 0;
    while ka < KINDS {
        let mut kb = 0;
        while kb < KINDS {
            if !(is_num(ka) && is_num(kb)) {
                let (a, ra) = scalar(ka);
                let (b, rb) = scalar(kb);
                let c = a.cmp(&b);
                if ra < rb {
                    assert!(c == Less);
                }
                if ra > rb {
                    assert!(c == Greater);
                }
                if ra == rb {
                    assert!(c == Equal);
                }
                assert!(b.cmp(&a) == c.reverse());
                assert!((a == b) == (c == Equal));
                assert!(a.partial_cmp(&b) == Some(c));
                kani::cover!(ka == 2 && kb == 4 && c == Less);
                kani::cover!(ka == 5 && kb == 6 && c == Equal);
                kani::cover!(ka == 6 && kb == 3 && c == Greater);
                core::mem::forget((a, b));
            }
            kb += 1;
        }
        ka += 1;
    }
}

const REC: usize = 48;
struct Rec {
    buf: [u8; REC],
    n: usize,
}
impl Rec {
    fn same(&self, o: &Rec) -> bool {
        if self.n != o.n {
            return false;
        }
        let mut i = 0;
        while i < REC {
            if i < self.n && self.buf[i] != o.buf[i] {
                return false;
            }
            i += 1;
        }
        true
    }
}
impl Hasher for Rec {
    fn write(&mut self, bytes: &[u8]) {
        for b in bytes {
            assert!(self.n < REC, "observer must not truncate");
            self.buf[self.n] = *b;
            self.n += 1;
        }
    }
    fn finish(&self) -> u64 {
        0
    }
}
fn stream(v: &Val) -> Rec {
    let mut r = Rec { buf: [0; REC], n: 0 };
    v.hash(&mut r);
    r
}

//@ tier: quick
//@ funcs: <Val as Hash>::hash, <Val as PartialEq>::eq
//@ bounds: all ordered pairs (case-split) over the non-number scalar kinds: null, false, true, empty text string, empty byte string
//@ assume: strings restricted to the empty string; numbers are covered on `Num` directly (c08_eq_hash_*), where the stream is shown to start with a tag byte < 2
//@ asserts: a == b => identical byte stream fed to the hasher (recording hasher asserted non-truncating); non-number kinds start with a tag byte >= 2 (disjoint from numbers) and values of different rank start with different tag bytes
#[kani::proof]
#[kani::unwind(50)]
fn c08_val_eq_hash_scalars() {
    let mut ka = 0;
    while ka < KINDS {
        let mut kb = 0;
        while kb < KINDS {
            if !is_num(ka) && !is_num(kb) {
                let (a, ra) = scalar(ka);
                let (b, rb) = scalar(kb);
                let (ha, hb) = (stream(&a), stream(&b));
                assert!(ha.n >= 1 && ha.buf[0] >= 2);
                if a == b {
                    assert!(ha.same(&hb));
                }
                if ra != rb {
                    assert!(ha.buf[0] != hb.buf[0]);
                }
                kani::cover!(ka == 5 && kb == 6 && a == b && ha.n > 1);
                kani::cover!(ka == 1 && kb == 2 && a != b);
                core::mem::forget((a, b));
            }
            kb += 1;
        }
        ka += 1;
    }
}

fn no_dec(_n: &str) -> crate::Num {
    panic!("no decimal literal is constructed in this harness: the Dec arms must be unreachable")
}
fn to_f64_model(b: &BigInt) -> Option<f64> {
    b.to_i64().map(|v| v as f64)
}

//@ tier: attempt
//@ funcs: <Val as Ord>::cmp (Num, Num arm), <Val as PartialEq>::eq (Num, Num arm), <Val as Hash>::hash (Num arm)
//@ bounds: numbers inside `Val`: Int(i) with |i| <= 2^53 and non-NaN Float(f), all four representation pairs (case-split), payloads symbolic
//@ assume: Num::from_dec_str replaced by a panicking stub (no decimal literal exists here: its arms are shown unreachable) and <BigInt as ToPrimitive>::to_f64 by the model `to_i64() as f64` -- inside a `Val` the solver cannot fold the niche-encoded `Num` tag and would otherwise execute decimal parsing and big-integer conversion
//@ asserts: on numbers, comparison, equality and hashing of VALUES are exactly those of the numbers: Val::cmp == Num::cmp, Val::eq == Num::eq, and equal values feed identical bytes to the hasher
#[kani::proof]
#[kani::unwind(50)]
#[kani::stub(crate::num::Num::from_dec_str, no_dec)]
#[kani::stub(<BigInt as num_traits::ToPrimitive>::to_f64, to_f64_model)]
fn c08_val_numbers_delegate_to_num() {
    let mut fa = 0;
    while fa < 2 {
        let mut fb = 0;
        while fb < 2 {
            let mk = |float: u8| {
                if float == 1 {
                    let f: f64 = kani::any();
                    kani::assume(!f.is_nan());
                    Num::Float(f)
                } else {
                    let i: isize = kani::any();
                    kani::assume(-(1isize << 53) <= i && i <= 1isize << 53);
                    Num::Int(i)
                }
            };
            let (x, y) = (mk(fa), mk(fb));
            let (a, b) = (Val::Num(x.clone()), Val::Num(y.clone()));
            assert!(a.cmp(&b) == x.cmp(&y));
            assert!((a == b) == (x == y));
            if a == b {
                assert!(stream(&a).same(&stream(&b)));
            }
            kani::cover!(fa == 0 && fb == 1 && a == b);
            kani::cover!(fa == 1 && fb == 1 && a.cmp(&b) == Less);
            core::mem::forget((a, b, x, y));
            fb += 1;
        }
        fa += 1;
    }
}
