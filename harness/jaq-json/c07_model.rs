// C07 support: independent model of the JSON / XJON string grammar (RFC 8259 section 7; jaq's `\\xXX` for byte strings).
//@@ mount: jaq-json/src/lib.rs as verif_c07_model
//@@ support
#![allow(dead_code)]
pub(crate) const CAP: usize = 24;

pub(crate) struct Out {
    pub(crate) b: [u8; CAP],
    pub(crate) n: usize,
}
impl Out {
    pub(crate) fn new() -> Self {
        Out { b: [0; CAP], n: 0 }
    }
    pub(crate) fn push(&mut self, c: u8) {
        if self.n < CAP {
            self.b[self.n] = c;
        }
        self.n += 1;
    }
}

pub(crate) fn m_hex(d: u8) -> u8 {
    if d < 10 {
        b'0' + d
    } else {
        b'a' + (d - 10)
    }
}

/// Escape of one byte. `text`: JSON text string (`\u00XX` for the rest of C0 and DEL, bytes >= 0x80 raw);
/// otherwise XJON byte string (`\xXX` for C0, DEL and every byte >= 0x80).
pub(crate) fn m_escape_byte(o: &mut Out, c: u8, text: bool) {
    match c {
        0x08 => {
            o.push(b'\\');
            o.push(b'b')
        }
        0x0c => {
            o.push(b'\\');
            o.push(b'f')
        }
        b'\t' => {
            o.push(b'\\');
            o.push(b't')
        }
        b'\n' => {
            o.push(b'\\');
            o.push(b'n')
        }
        b'\r' => {
            o.push(b'\\');
            o.push(b'r')
        }
        b'\\' => {
            o.push(b'\\');
            o.push(b'\\')
        }
        b'"' => {
            o.push(b'\\');
            o.push(b'"')
        }
        _ => {
            let special = c < 0x20 || c == 0x7f || (!text && c >= 0x80);
            if !special {
                o.push(c)
            } else if text {
                o.push(b'\\');
                o.push(b'u');
                o.push(b'0');
                o.push(b'0');
                o.push(m_hex(c >> 4));
                o.push(m_hex(c & 15))
            } else {
                o.push(b'\\');
                o.push(b'x');
                o.push(m_hex(c >> 4));
                o.push(m_hex(c & 15))
            }
        }
    }
}

pub(crate) fn m_escape(s: &[u8], text: bool) -> Out {
    let mut o = Out::new();
    if !text {
        o.push(b'b');
    }
    o.push(b'"');
    let mut i = 0;
    while i < s.len() {
        m_escape_byte(&mut o, s[i], text);
        i += 1;
    }
    o.push(b'"');
    o
}

