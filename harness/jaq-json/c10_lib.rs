// Kani harnesses for jaq-json/src/lib.rs (child module of the crate root:
// sees the private position kernels `skip_take`, `abs_bound`, `abs_index`,
// `skip_take_chars`, `bytes_splice`, `Val::range_int`, `Val::index_opt`).
//
// Appended to an overlay copy of /repo by /verif/bin/check; never part of /repo.
//@@ mount: jaq-json/src/lib.rs as verif_c10_lib
//@@ prop: C10
#![allow(dead_code, unused_imports)]
use super::*;
use alloc::{vec, vec::Vec}; // for generated concrete-playback tests (no_std crate)
use crate::num::PosUsize;
use jaq_core::ValT as _;
use num_bigint::BigInt;

// ---------------------------------------------------------------------------
// Independent position model over mathematical integers (i128 holds every
// usize and every signed usize-magnitude).
// ---------------------------------------------------------------------------

/// Mathematical value of a `PosUsize`.
fn m_val(p: PosUsize) -> i128 {
    if p.0 {
        p.1 as i128
    } else {
        -(p.1 as i128)
    }
}
/// negative positions count from the end
fn m_abs(i: i128, len: i128) -> i128 {
    if i < 0 {
        len + i
    } else {
        i
    }
}
/// slice bounds are clipped to [0, len]
fn m_clip(x: i128, len: i128) -> i128 {
    if x < 0 {
        0
    } else if x > len {
        len
    } else {
        x
    }
}
/// `null` (None) means open
fn m_bound(b: Option<i128>, len: i128, default: i128) -> i128 {
    match b {
        None => default,
        Some(i) => m_clip(m_abs(i, len), len),
    }
}

/// Arbitrary `PosUsize` satisfying the representation invariant that
/// `Num::as_pos_usize` establishes (see `c10_as_pos_usize_invariant`):
/// a non-positive flag implies magnitude >= 1.
fn any_pos_usize() -> PosUsize {
    let p = PosUsize(kani::any(), kani::any());
    kani::assume(p.0 || p.1 >= 1);
    p
}
fn any_opt_pos() -> Option<PosUsize> {
    if kani::any() {
        Some(any_pos_usize())
    } else {
        None
    }
}

/// `Num::as_pos_usize` on machine integers: value preserved, invariant established.
//@ tier: quick
//@ funcs: Num::as_pos_usize
//@ bounds: all isize
//@ asserts: value preserved (as i128); sign flag == (i >= 0); negative => magnitude >= 1
#[kani::proof]
fn c10_as_pos_usize_invariant() {
    let i: isize = kani::any();
    let p = Num::Int(i).as_pos_usize().unwrap();
    assert!(m_val(p) == i as i128);
    assert!(p.0 || p.1 >= 1);
    assert!(p.0 == (i >= 0));
    kani::cover!(i == isize::MIN);
    kani::cover!(i == -1);
}

/// `PosUsize::wrap`: negative counts from the end; None iff before the start.
//@ tier: quick
//@ funcs: PosUsize::wrap
//@ bounds: all usize len; all PosUsize (sign x usize magnitude) satisfying the representation invariant
//@ assume: PosUsize invariant (non-positive flag => magnitude >= 1), shown to be established by as_pos_usize in c10_as_pos_usize_invariant
//@ asserts: Some(k) => k == len + i for negative i, i otherwise; None <=> position before the start
#[kani::proof]
fn c10_wrap_model() {
    let len: usize = kani::any();
    let p = any_pos_usize();
    let m = m_abs(m_val(p), len as i128);
    match p.wrap(len) {
        Some(k) => assert!(k as i128 == m),
        None => assert!(m < 0),
    }
    kani::cover!(!p.0 && p.1 == len);
    kani::cover!(!p.0 && p.1 > len);
    kani::cover!(p.0 && p.1 > len);
}

/// `skip_take` (arrays, byte strings): agrees with the model for all lengths and bounds.
//@ tier: quick
//@ funcs: skip_take, abs_bound, PosUsize::wrap
//@ bounds: all usize len; both bounds absent or any PosUsize
//@ asserts: skip == clip(abs(start)), take == max(0, upto - from), skip + take <= len (i128 model)
#[kani::proof]
fn c10_skip_take_model() {
    let len: usize = kani::any();
    let (s, e) = (any_opt_pos(), any_opt_pos());
    let (skip, take) = skip_take(s..e, len);
    let l = len as i128;
    let from = m_bound(s.map(m_val), l, 0);
    let upto = m_bound(e.map(m_val), l, l);
    let want_take = if upto > from { upto - from } else { 0 };
    assert!(skip as i128 == from);
    assert!(take as i128 == want_take);
    // what ValT::range / map_range rely on: `skip..skip + take` is in bounds
    assert!(skip as i128 + take as i128 <= l);
    kani::cover!(take > 0 && s.is_some() && e.is_some() && !s.unwrap().0 && !e.unwrap().0);
    kani::cover!(take == 0 && upto < from);
    kani::cover!(s.is_none() && e.is_none());
}

/// `abs_index`: Some(k) exactly when the position points into the container.
//@ tier: quick
//@ funcs: abs_index, PosUsize::wrap
//@ bounds: all usize len; any PosUsize
//@ asserts: Some(k) <=> 0 <= abs(i) < len and k == abs(i)
#[kani::proof]
fn c10_abs_index_model() {
    let len: usize = kani::any();
    let p = any_pos_usize();
    let m = m_abs(m_val(p), len as i128);
    match abs_index(p, len) {
        Some(k) => {
            assert!(k < len);
            assert!(k as i128 == m);
        }
        None => assert!(m < 0 || m >= len as i128),
    }
    kani::cover!(abs_index(p, len).is_some() && !p.0);
    kani::cover!(abs_index(p, len).is_none() && p.0 && p.1 == len);
}

/// `abs_bound` clips into [0, len] and honours the default for open bounds.
//@ tier: quick
//@ funcs: abs_bound, PosUsize::wrap
//@ bounds: all usize len and default; bound absent or any PosUsize
//@ asserts: result == default when open else clip(abs(i)) into [0, len]
#[kani::proof]
fn c10_abs_bound_model() {
    let len: usize = kani::any();
    let default: usize = kani::any();
    let p = any_opt_pos();
    let got = abs_bound(p, len, default);
    let want = m_bound(p.map(m_val), len as i128, default as i128);
    assert!(got as i128 == want);
    kani::cover!(p.is_none());
    kani::cover!(p.is_some() && got == len && len > 0);
}

/// `Val::range_int`: null and absent bounds are open; machine integers keep their value;
/// everything else (here: bool, float) is a type error, never a silently open bound.
//@ tier: quick
//@ funcs: Val::range_int, Val::as_pos_usize, Num::as_pos_usize
//@ bounds: each bound one of: absent, null, any machine integer, any bool, any f64
//@ asserts: null/absent => open; integer => same value; bool/float => Err (never silently open)
#[kani::proof]
fn c10_range_int_model() {
    fn any_bound() -> (Option<Val>, u8) {
        let k: u8 = kani::any();
        kani::assume(k < 5);
        match k {
            0 => (None, 0),
            1 => (Some(Val::Null), 1),
            2 => (Some(Val::Num(Num::Int(kani::any()))), 2),
            3 => (Some(Val::Bool(kani::any())), 3),
            _ => (Some(Val::Num(Num::Float(kani::any()))), 4),
        }
    }
    let (s, sk) = any_bound();
    let (e, ek) = any_bound();
    let r = Val::range_int(s.as_ref()..e.as_ref());
    let open = |k: u8| k <= 1;
    let bad = |k: u8| k >= 3;
    match &r {
        Ok(r) => {
            assert!(!bad(sk) && !bad(ek));
            assert!(r.start.is_none() == open(sk));
            assert!(r.end.is_none() == open(ek));
            if let (Some(Val::Num(Num::Int(i))), Some(p)) = (&s, r.start) {
                assert!(m_val(p) == *i as i128);
            }
            if let (Some(Val::Num(Num::Int(i))), Some(p)) = (&e, r.end) {
                assert!(m_val(p) == *i as i128);
            }
        }
        Err(_) => assert!(bad(sk) || bad(ek)),
    }
    kani::cover!(r.is_ok() && sk == 2 && ek == 2);
    kani::cover!(r.is_err());
    core::mem::forget(r);
    core::mem::forget(s);
    core::mem::forget(e);
}

/// A big integer of up to 128 bits, built without big-number arithmetic.
fn any_bigint() -> (BigInt, i128) {
    let v: i128 = kani::any();
    (BigInt::from(v), v)
}

//@ tier: quick
//@ funcs: Num::as_pos_usize (BigInt arm), BigInt::magnitude, BigUint::to_usize, BigInt::sign
//@ bounds: every big integer representable in 128 bits (incl. zero, which un-normalised arithmetic can produce as a BigInt)
//@ asserts: Some(p) exactly when |v| <= usize::MAX, with value preserved and the representation invariant (negative => magnitude >= 1) established -- a big-integer zero is the position 0, not "0 from the end"
#[kani::proof]
#[kani::unwind(6)]
fn c10_as_pos_usize_bigint() {
    let (b, v) = any_bigint();
    let n = Num::BigInt(b.into());
    match n.as_pos_usize() {
        Some(p) => {
            assert!(m_val(p) == v);
            assert!(p.0 || p.1 >= 1);
        }
        None => assert!(v > usize::MAX as i128 || v < -(usize::MAX as i128)),
    }
    kani::cover!(v == 0);
    kani::cover!(v == -(usize::MAX as i128));
    kani::cover!(v > usize::MAX as i128);
    core::mem::forget(n);
}

fn chars_like_bytes(b: &[u8]) {
    let (s, e) = (any_opt_pos(), any_opt_pos());
    let got = skip_take_chars(s..e, b);
    let want = skip_take(s..e, b.len());
    assert!(got == want);
    kani::cover!(s.is_some() && !s.unwrap().0 && got.1 > 0);
    kani::cover!(e.is_some() && !e.unwrap().0 && got.1 > 0);
}

//@ tier: quick
//@ funcs: skip_take_chars, bstr::ByteSlice::char_indices, skip_take
//@ bounds: text strings of length 0..=2 (lengths case-split; length 3 in the thorough harness c10_skip_take_chars_ascii_and_invalid_3) over the alphabet ASCII u {0xFF} -- every byte is exactly one character there (0xFF is an invalid byte, read as one replacement character covering ONE source byte); both bounds absent or any PosUsize
//@ assume: bytes restricted to ASCII or 0xFF (multi-byte characters are outside this harness)
//@ asserts: on such strings character positions are byte positions: skip_take_chars agrees with skip_take (itself shown equal to the position model), for negative and non-negative spellings alike -- an invalid byte counts as one character of one byte from either end
#[kani::proof]
#[kani::unwind(8)]
fn c10_skip_take_chars_ascii_and_invalid() {
    let b: [u8; 3] = kani::any();
    kani::assume((b[0] < 0x80 || b[0] == 0xFF) && (b[1] < 0x80 || b[1] == 0xFF) && (b[2] < 0x80 || b[2] == 0xFF));
    chars_like_bytes(&b[..0]);
    chars_like_bytes(&b[..1]);
    chars_like_bytes(&b[..2]);
}

//@ tier: thorough
//@ timeout: 2400
//@ funcs: skip_take_chars, bstr::ByteSlice::char_indices, skip_take
//@ bounds: text strings of length 3 over the alphabet ASCII u {0xFF} -- every byte is exactly one character there (0xFF is an invalid byte, read as one replacement character covering ONE source byte); both bounds absent or any PosUsize
//@ assume: bytes restricted to ASCII or 0xFF (multi-byte characters are outside this harness)
//@ asserts: on such strings character positions are byte positions: skip_take_chars agrees with skip_take (itself shown equal to the position model), for negative and non-negative spellings alike -- an invalid byte counts as one character of one byte from either end
#[kani::proof]
#[kani::unwind(8)]
fn c10_skip_take_chars_ascii_and_invalid_3() {
    let b: [u8; 3] = kani::any();
    kani::assume((b[0] < 0x80 || b[0] == 0xFF) && (b[1] < 0x80 || b[1] == 0xFF) && (b[2] < 0x80 || b[2] == 0xFF));
    chars_like_bytes(&b[..3]);
}

//@ tier: attempt
//@ funcs: Val::index_opt (array and byte-string arms), <Val as ValT>::index, abs_index, Num::as_pos_usize
//@ bounds: the array [false, true, null] and the byte string "abc" (concrete containers), index any machine integer; plus a float and a boolean index
//@ asserts: `.[i]` reads exactly the element the position model names (negative from the end) and null outside; on byte strings the byte value as a number; a float or boolean index is an error, never a guess
#[kani::proof]
#[kani::unwind(8)]
fn c10_index_opt_reads_model_position() {
    let i: isize = kani::any();
    let arr: Val = [Val::Bool(false), Val::Bool(true), Val::Null].into_iter().collect();
    let r = arr.index_opt(&Val::Num(Num::Int(i)));
    let m = m_abs(i as i128, 3);
    match &r {
        Ok(Some(v)) => {
            assert!(0 <= m && m < 3);
            match m {
                0 => assert!(matches!(v, Val::Bool(false))),
                1 => assert!(matches!(v, Val::Bool(true))),
                _ => assert!(matches!(v, Val::Null)),
            }
        }
        Ok(None) => assert!(m < 0 || m >= 3),
        Err(_) => panic!("an integer index into an array is never an error"),
    }
    let bs = Val::byte_str(Bytes::from_static(b"abc"));
    let rb = bs.index_opt(&Val::Num(Num::Int(i)));
    match &rb {
        Ok(Some(Val::Num(Num::Int(b)))) => assert!(0 <= m && m < 3 && *b == 97 + m as isize),
        Ok(None) => assert!(m < 0 || m >= 3),
        _ => panic!("a byte is read as a machine integer"),
    }
    kani::cover!(i == -3);
    kani::cover!(i == 3);
    kani::cover!(i == 1);
    core::mem::forget((r, rb));
}

/// Independent UTF-8 segmentation after the Unicode standard (Table 3-7 "Well-Formed UTF-8 Byte
/// Sequences" and the "substitution of maximal subparts" practice): the length in bytes of the
/// character starting at `i`, where an ill-formed MAXIMAL SUBPART (the longest prefix of a well-formed
/// sequence, at least one byte) counts as one character.
fn m_char_len(s: &[u8], i: usize) -> usize {
    let b0 = s[i];
    let at = |k: usize| if i + k < s.len() { Some(s[i + k]) } else { None };
    let is_cont = |b: Option<u8>| matches!(b, Some(0x80..=0xBF));
    let second_ok = |lo: u8, hi: u8| matches!(at(1), Some(b) if lo <= b && b <= hi);
    match b0 {
        0x00..=0x7F => 1,
        0xC2..=0xDF => {
            if second_ok(0x80, 0xBF) {
                2
            } else {
                1
            }
        }
        0xE0..=0xEF => {
            let (lo, hi) = match b0 {
                0xE0 => (0xA0, 0xBF),
                0xED => (0x80, 0x9F),
                _ => (0x80, 0xBF),
            };
            if !second_ok(lo, hi) {
                1
            } else if is_cont(at(2)) {
                3
            } else {
                2
            }
        }
        0xF0..=0xF4 => {
            let (lo, hi) = match b0 {
                0xF0 => (0x90, 0xBF),
                0xF4 => (0x80, 0x8F),
                _ => (0x80, 0xBF),
            };
            if !second_ok(lo, hi) {
                1
            } else if !is_cont(at(2)) {
                2
            } else if is_cont(at(3)) {
                4
            } else {
                3
            }
        }
        _ => 1,
    }
}

//@ tier: quick
//@ funcs: skip_take_chars, bstr::ByteSlice::char_indices
//@ bounds: every byte string of length 3 (all 2^24: 1-, 2- and 3-byte characters, ill-formed sequences); both bounds absent or any PosUsize
//@ assume: PosUsize invariant (as established by as_pos_usize)
//@ asserts: positions count CHARACTERS of an independent UTF-8 segmentation (Unicode Table 3-7; an ill-formed maximal subpart is one character): the byte range returned is [boundary(from), boundary(upto)) of the position model applied to the character count -- so slicing text never splits a character, negative positions count characters from the end, and out-of-range bounds clip
#[kani::proof]
#[kani::unwind(8)]
fn c10_skip_take_chars_any_3_bytes() {
    let b: [u8; 3] = kani::any();
    // character boundaries by the independent model: bnd[k] = byte offset of character k, bnd[n] = 3
    let mut bnd = [3usize; 4];
    let (mut i, mut n) = (0usize, 0usize);
    while i < 3 {
        bnd[n] = i;
        i += m_char_len(&b, i);
        n += 1;
    }
    let (s, e) = (any_opt_pos(), any_opt_pos());
    let (skip, take) = skip_take_chars(s..e, &b);
    let l = n as i128;
    let from = m_bound(s.map(m_val), l, 0);
    let upto = m_bound(e.map(m_val), l, l);
    let (fb, ub) = (bnd[from as usize], bnd[upto as usize]);
    assert!(skip == fb);
    assert!(take == if ub > fb { ub - fb } else { 0 });
    kani::cover!(n == 1);
    kani::cover!(n == 2 && s.is_some() && !s.unwrap().0 && take > 0);
    kani::cover!(n == 3 && b[0] >= 0x80);
}
