// C09 — machine-integer arithmetic is exact; promotion to big integers exactly at the boundary.
// Child module of jaq-json/src/num.rs.
//@@ mount: jaq-json/src/num.rs as verif_c09_num
//@@ prop: C09
#![allow(dead_code, unused_imports)]
use super::*;
use alloc::{vec, vec::Vec}; // for generated concrete-playback tests (no_std crate)
use num_traits::cast::ToPrimitive;

/// The exact value of an integer result, as i128 (every sum/difference/negation of isize fits).
fn exact(n: &Num) -> Option<i128> {
    match n {
        Num::Int(i) => Some(*i as i128),
        Num::BigInt(b) => b.to_i128(),
        _ => None,
    }
}
/// Stubs for num-bigint's heap arithmetic. Kani cannot execute it (it reaches the x86
/// `llvm.x86.addcarry.64` intrinsic, "unsupported construct"), so where a harness only decides
/// WHETHER a result is promoted, the big-number operation itself is replaced by a dummy.
/// The value of promoted results is therefore outside those harnesses' claim.
fn big_dummy2(_a: BigInt, _b: BigInt) -> BigInt {
    BigInt::from(0)
}

fn fits(m: i128) -> bool {
    isize::MIN as i128 <= m && m <= isize::MAX as i128
}
/// result is the machine representation exactly when the model fits, and is never a float
fn check_repr(r: &Num, model: i128) {
    match r {
        Num::Int(v) => {
            assert!(fits(model));
            assert!(*v as i128 == model);
        }
        Num::BigInt(_) => assert!(!fits(model)),
        _ => panic!("integer operation yielded a non-integer"),
    }
}

//@ tier: quick
//@ funcs: <Num as Add>::add, num::int_or_big
//@ bounds: all isize pairs
//@ asserts: Int + Int is Int(v) with v == x + y (i128 model) exactly when the sum fits isize, BigInt exactly when it does not; never a float or a wrapped value
#[kani::proof]
#[kani::unwind(8)]
#[kani::stub(<BigInt as core::ops::Add<BigInt>>::add, big_dummy2)]
fn c09_add_repr() {
    let (x, y): (isize, isize) = (kani::any(), kani::any());
    let r = Num::Int(x) + Num::Int(y);
    check_repr(&r, x as i128 + y as i128);
    kani::cover!(matches!(r, Num::BigInt(_)) && x > 0);
    kani::cover!(matches!(r, Num::BigInt(_)) && x < 0);
    kani::cover!(matches!(r, Num::Int(isize::MAX)) && x > 0 && y > 0);
    core::mem::forget(r);
}

//@ tier: quick
//@ funcs: <Num as Sub>::sub, num::int_or_big
//@ bounds: all isize pairs
//@ asserts: Int - Int is Int(v) with v == x - y exactly when the difference fits isize, BigInt exactly when it does not
#[kani::proof]
#[kani::unwind(8)]
#[kani::stub(<BigInt as core::ops::Sub<BigInt>>::sub, big_dummy2)]
fn c09_sub_repr() {
    let (x, y): (isize, isize) = (kani::any(), kani::any());
    let r = Num::Int(x) - Num::Int(y);
    check_repr(&r, x as i128 - y as i128);
    kani::cover!(matches!(r, Num::BigInt(_)) && x >= 0);
    kani::cover!(matches!(r, Num::BigInt(_)) && x < 0);
    kani::cover!(matches!(r, Num::Int(isize::MIN)) && y > 0);
    core::mem::forget(r);
}

//@ tier: quick
//@ funcs: <Num as Neg>::neg, num::int_or_big
//@ bounds: all isize
//@ asserts: -Int(x) is Int(-x) for x != isize::MIN and a BigInt for isize::MIN
#[kani::proof]
#[kani::unwind(8)]
fn c09_neg_repr() {
    let x: isize = kani::any();
    let r = -Num::Int(x);
    check_repr(&r, -(x as i128));
    kani::cover!(matches!(r, Num::BigInt(_)));
    kani::cover!(matches!(r, Num::Int(isize::MAX)));
    core::mem::forget(r);
}

fn rem_one(x: isize, y: isize) {
    let r = Num::Int(x) % Num::Int(y);
    // mathematical truncated remainder; x rem -1 == 0 for every x (also isize::MIN)
    let model = if y == -1 { 0 } else { x % y };
    match r {
        Num::Int(v) => assert!(v == model),
        _ => panic!("Int % Int yielded a non-machine integer"),
    }
}

//@ tier: quick
//@ funcs: Num::as_isize, Num::from_integral::<usize>, Num::from_integral::<u64>, Num::from_integral::<i64>, Num::is_int
//@ bounds: all isize, all usize, all u64, all i64
//@ asserts: as_isize(Int(i)) == Some(i); from_integral yields Int exactly when the value fits isize (BigInt otherwise), preserving the value; floats are not integers
#[kani::proof]
#[kani::unwind(8)]
fn c09_conversions() {
    let i: isize = kani::any();
    assert!(Num::Int(i).as_isize() == Some(i));
    assert!(Num::Int(i).is_int());
    let f: f64 = kani::any();
    assert!(Num::Float(f).as_isize().is_none() && !Num::Float(f).is_int());
    let u: usize = kani::any();
    let r = Num::from_integral(u);
    check_repr(&r, u as i128);
    let s: i64 = kani::any();
    let r2 = Num::from_integral(s);
    check_repr(&r2, s as i128);
    kani::cover!(matches!(r, Num::BigInt(_)));
    kani::cover!(matches!(r, Num::Int(isize::MAX)));
    core::mem::forget((r, r2));
}

fn mul_one(x: isize, y: isize) {
    let model = (x as i128) * (y as i128);
    let r = Num::Int(x) * Num::Int(y);
    check_repr(&r, model);
    let l = Num::Int(y) * Num::Int(x);
    check_repr(&l, model);
    core::mem::forget((r, l));
}

//@ tier: quick
//@ funcs: <Num as Mul>::mul
//@ bounds: all pairs of i32-range operands (symbolic x symbolic)
//@ assume: both operands within i32 range (a symbolic 64x64-bit product is probed separately in the thorough tier)
//@ asserts: Int * Int == Int(x * y) exactly
#[kani::proof]
#[kani::unwind(8)]
#[kani::stub(<BigInt as core::ops::Mul<BigInt>>::mul, big_dummy2)]
fn c09_mul_exact_32bit() {
    let (x, y): (i32, i32) = (kani::any(), kani::any());
    let r = Num::Int(x as isize) * Num::Int(y as isize);
    check_repr(&r, (x as i64 * y as i64) as i128);
    kani::cover!(x == i32::MIN && y == i32::MIN);
    kani::cover!(x < 0 && y > 0);
    core::mem::forget(r);
}

//@ tier: quick
//@ funcs: <Num as Mul>::mul, num::int_or_big
//@ bounds: all isize pairs (symbolic 64 x 64-bit product; decided in ~40 s by CaDiCaL)
//@ asserts: Int * Int is Int(v) with v == x * y exactly when the product fits isize, BigInt exactly when it does not
#[kani::proof]
#[kani::unwind(8)]
#[kani::stub(<BigInt as core::ops::Mul<BigInt>>::mul, big_dummy2)]
fn c09_mul_repr_64bit() {
    let (x, y): (isize, isize) = (kani::any(), kani::any());
    let r = Num::Int(x) * Num::Int(y);
    check_repr(&r, (x as i128) * (y as i128));
    kani::cover!(matches!(r, Num::BigInt(_)));
    kani::cover!(matches!(r, Num::Int(_)) && x > 1 << 31 && y > 1 << 31);
    core::mem::forget(r);
}

//@ tier: quick
//@ funcs: <Num as Neg>::neg, num::int_or_big, BigInt::from, <BigInt as Neg>::neg
//@ bounds: all isize; the promoted big integer is read back with BigInt::to_i128
//@ asserts: -Int(x) has exactly the value -x (i128 model), also when promoted (x == isize::MIN); (sums, differences and products of promoted values are outside: Kani cannot execute num-bigint's addcarry intrinsic)
#[kani::proof]
#[kani::unwind(8)]
fn c09_neg_promoted_value_exact() {
    let x: isize = kani::any();
    let n = -Num::Int(x);
    assert!(exact(&n) == Some(-(x as i128)));
    kani::cover!(matches!(n, Num::BigInt(_)));
    core::mem::forget(n);
}

// ---- generated: one harness per literal constant (a constant reached through an array index is
// not constant-folded by symbolic execution, and ten dividers/multipliers in one query exceed the cap)

//@ tier: quick
//@ funcs: <Num as Rem>::rem
//@ bounds: all isize dividends; divisor = -1
//@ assume: divisor != 0 (guarded by Val::rem)
//@ asserts: Int % Int is Int(x rem y), truncated division (for divisor -1 the remainder is 0 for every x, also isize::MIN: no overflow, no panic)
#[kani::proof]
#[kani::unwind(8)]
fn c09_rem_by_m1() {
    let x: isize = kani::any();
    rem_one(x, -1);
    kani::cover!(x == isize::MIN);
    kani::cover!(x == -7);
}

//@ tier: quick
//@ funcs: <Num as Rem>::rem
//@ bounds: all isize dividends; divisor = 1
//@ assume: divisor != 0 (guarded by Val::rem)
//@ asserts: Int % Int is Int(x rem y), truncated division (for divisor -1 the remainder is 0 for every x, also isize::MIN: no overflow, no panic)
#[kani::proof]
#[kani::unwind(8)]
fn c09_rem_by_p1() {
    let x: isize = kani::any();
    rem_one(x, 1);
    kani::cover!(x == isize::MIN);
    kani::cover!(x == -7);
}

//@ tier: quick
//@ funcs: <Num as Rem>::rem
//@ bounds: all isize dividends; divisor = 2
//@ assume: divisor != 0 (guarded by Val::rem)
//@ asserts: Int % Int is Int(x rem y), truncated division (for divisor -1 the remainder is 0 for every x, also isize::MIN: no overflow, no panic)
#[kani::proof]
#[kani::unwind(8)]
fn c09_rem_by_p2() {
    let x: isize = kani::any();
    rem_one(x, 2);
    kani::cover!(x == isize::MIN);
    kani::cover!(x == -7);
}

//@ tier: quick
//@ funcs: <Num as Rem>::rem
//@ bounds: all isize dividends; divisor = -2
//@ assume: divisor != 0 (guarded by Val::rem)
//@ asserts: Int % Int is Int(x rem y), truncated division (for divisor -1 the remainder is 0 for every x, also isize::MIN: no overflow, no panic)
#[kani::proof]
#[kani::unwind(8)]
fn c09_rem_by_m2() {
    let x: isize = kani::any();
    rem_one(x, -2);
    kani::cover!(x == isize::MIN);
    kani::cover!(x == -7);
}

//@ tier: quick
//@ funcs: <Num as Rem>::rem
//@ bounds: all isize dividends; divisor = 3
//@ assume: divisor != 0 (guarded by Val::rem)
//@ asserts: Int % Int is Int(x rem y), truncated division (for divisor -1 the remainder is 0 for every x, also isize::MIN: no overflow, no panic)
#[kani::proof]
#[kani::unwind(8)]
fn c09_rem_by_p3() {
    let x: isize = kani::any();
    rem_one(x, 3);
    kani::cover!(x == isize::MIN);
    kani::cover!(x == -7);
}

//@ tier: quick
//@ funcs: <Num as Rem>::rem
//@ bounds: all isize dividends; divisor = 7
//@ assume: divisor != 0 (guarded by Val::rem)
//@ asserts: Int % Int is Int(x rem y), truncated division (for divisor -1 the remainder is 0 for every x, also isize::MIN: no overflow, no panic)
#[kani::proof]
#[kani::unwind(8)]
fn c09_rem_by_p7() {
    let x: isize = kani::any();
    rem_one(x, 7);
    kani::cover!(x == isize::MIN);
    kani::cover!(x == -7);
}

//@ tier: quick
//@ funcs: <Num as Rem>::rem
//@ bounds: all isize dividends; divisor = 10
//@ assume: divisor != 0 (guarded by Val::rem)
//@ asserts: Int % Int is Int(x rem y), truncated division (for divisor -1 the remainder is 0 for every x, also isize::MIN: no overflow, no panic)
#[kani::proof]
#[kani::unwind(8)]
fn c09_rem_by_p10() {
    let x: isize = kani::any();
    rem_one(x, 10);
    kani::cover!(x == isize::MIN);
    kani::cover!(x == -7);
}

//@ tier: quick
//@ funcs: <Num as Rem>::rem
//@ bounds: all isize dividends; divisor = -10
//@ assume: divisor != 0 (guarded by Val::rem)
//@ asserts: Int % Int is Int(x rem y), truncated division (for divisor -1 the remainder is 0 for every x, also isize::MIN: no overflow, no panic)
#[kani::proof]
#[kani::unwind(8)]
fn c09_rem_by_m10() {
    let x: isize = kani::any();
    rem_one(x, -10);
    kani::cover!(x == isize::MIN);
    kani::cover!(x == -7);
}

//@ tier: quick
//@ funcs: <Num as Rem>::rem
//@ bounds: all isize dividends; divisor = isize::MAX
//@ assume: divisor != 0 (guarded by Val::rem)
//@ asserts: Int % Int is Int(x rem y), truncated division (for divisor -1 the remainder is 0 for every x, also isize::MIN: no overflow, no panic)
#[kani::proof]
#[kani::unwind(8)]
fn c09_rem_by_max() {
    let x: isize = kani::any();
    rem_one(x, isize::MAX);
    kani::cover!(x == isize::MIN);
    kani::cover!(x == -7);
}

//@ tier: quick
//@ funcs: <Num as Rem>::rem
//@ bounds: all isize dividends; divisor = isize::MIN
//@ assume: divisor != 0 (guarded by Val::rem)
//@ asserts: Int % Int is Int(x rem y), truncated division (for divisor -1 the remainder is 0 for every x, also isize::MIN: no overflow, no panic)
#[kani::proof]
#[kani::unwind(8)]
fn c09_rem_by_min() {
    let x: isize = kani::any();
    rem_one(x, isize::MIN);
    kani::cover!(x == isize::MIN);
    kani::cover!(x == -7);
}

//@ tier: quick
//@ funcs: <Num as Mul>::mul, num::int_or_big
//@ bounds: all isize multiplicands; multiplier = 0, on either side
//@ asserts: Int * Int is Int(v) with v == x * y (i128 model) exactly when the product fits isize, BigInt exactly when it does not
#[kani::proof]
#[kani::unwind(8)]
#[kani::stub(<BigInt as core::ops::Mul<BigInt>>::mul, big_dummy2)]
fn c09_mul_by_p0() {
    let x: isize = kani::any();
    mul_one(x, 0);
    kani::cover!(x == isize::MIN);
    kani::cover!(x == isize::MAX / 2 + 1);
}

//@ tier: quick
//@ funcs: <Num as Mul>::mul, num::int_or_big
//@ bounds: all isize multiplicands; multiplier = -1, on either side
//@ asserts: Int * Int is Int(v) with v == x * y (i128 model) exactly when the product fits isize, BigInt exactly when it does not
#[kani::proof]
#[kani::unwind(8)]
#[kani::stub(<BigInt as core::ops::Mul<BigInt>>::mul, big_dummy2)]
fn c09_mul_by_m1() {
    let x: isize = kani::any();
    mul_one(x, -1);
    kani::cover!(x == isize::MIN);
    kani::cover!(x == isize::MAX / 2 + 1);
}

//@ tier: quick
//@ funcs: <Num as Mul>::mul, num::int_or_big
//@ bounds: all isize multiplicands; multiplier = 1, on either side
//@ asserts: Int * Int is Int(v) with v == x * y (i128 model) exactly when the product fits isize, BigInt exactly when it does not
#[kani::proof]
#[kani::unwind(8)]
#[kani::stub(<BigInt as core::ops::Mul<BigInt>>::mul, big_dummy2)]
fn c09_mul_by_p1() {
    let x: isize = kani::any();
    mul_one(x, 1);
    kani::cover!(x == isize::MIN);
    kani::cover!(x == isize::MAX / 2 + 1);
}

//@ tier: quick
//@ funcs: <Num as Mul>::mul, num::int_or_big
//@ bounds: all isize multiplicands; multiplier = 2, on either side
//@ asserts: Int * Int is Int(v) with v == x * y (i128 model) exactly when the product fits isize, BigInt exactly when it does not
#[kani::proof]
#[kani::unwind(8)]
#[kani::stub(<BigInt as core::ops::Mul<BigInt>>::mul, big_dummy2)]
fn c09_mul_by_p2() {
    let x: isize = kani::any();
    mul_one(x, 2);
    kani::cover!(x == isize::MIN);
    kani::cover!(x == isize::MAX / 2 + 1);
}

//@ tier: quick
//@ funcs: <Num as Mul>::mul, num::int_or_big
//@ bounds: all isize multiplicands; multiplier = -2, on either side
//@ asserts: Int * Int is Int(v) with v == x * y (i128 model) exactly when the product fits isize, BigInt exactly when it does not
#[kani::proof]
#[kani::unwind(8)]
#[kani::stub(<BigInt as core::ops::Mul<BigInt>>::mul, big_dummy2)]
fn c09_mul_by_m2() {
    let x: isize = kani::any();
    mul_one(x, -2);
    kani::cover!(x == isize::MIN);
    kani::cover!(x == isize::MAX / 2 + 1);
}

//@ tier: quick
//@ funcs: <Num as Mul>::mul, num::int_or_big
//@ bounds: all isize multiplicands; multiplier = 3, on either side
//@ asserts: Int * Int is Int(v) with v == x * y (i128 model) exactly when the product fits isize, BigInt exactly when it does not
#[kani::proof]
#[kani::unwind(8)]
#[kani::stub(<BigInt as core::ops::Mul<BigInt>>::mul, big_dummy2)]
fn c09_mul_by_p3() {
    let x: isize = kani::any();
    mul_one(x, 3);
    kani::cover!(x == isize::MIN);
    kani::cover!(x == isize::MAX / 2 + 1);
}

//@ tier: quick
//@ funcs: <Num as Mul>::mul, num::int_or_big
//@ bounds: all isize multiplicands; multiplier = 10, on either side
//@ asserts: Int * Int is Int(v) with v == x * y (i128 model) exactly when the product fits isize, BigInt exactly when it does not
#[kani::proof]
#[kani::unwind(8)]
#[kani::stub(<BigInt as core::ops::Mul<BigInt>>::mul, big_dummy2)]
fn c09_mul_by_p10() {
    let x: isize = kani::any();
    mul_one(x, 10);
    kani::cover!(x == isize::MIN);
    kani::cover!(x == isize::MAX / 2 + 1);
}

//@ tier: quick
//@ funcs: <Num as Mul>::mul, num::int_or_big
//@ bounds: all isize multiplicands; multiplier = 1000000, on either side
//@ asserts: Int * Int is Int(v) with v == x * y (i128 model) exactly when the product fits isize, BigInt exactly when it does not
#[kani::proof]
#[kani::unwind(8)]
#[kani::stub(<BigInt as core::ops::Mul<BigInt>>::mul, big_dummy2)]
fn c09_mul_by_p1e6() {
    let x: isize = kani::any();
    mul_one(x, 1000000);
    kani::cover!(x == isize::MIN);
    kani::cover!(x == isize::MAX / 2 + 1);
}

//@ tier: quick
//@ funcs: <Num as Mul>::mul, num::int_or_big
//@ bounds: all isize multiplicands; multiplier = isize::MAX, on either side
//@ asserts: Int * Int is Int(v) with v == x * y (i128 model) exactly when the product fits isize, BigInt exactly when it does not
#[kani::proof]
#[kani::unwind(8)]
#[kani::stub(<BigInt as core::ops::Mul<BigInt>>::mul, big_dummy2)]
fn c09_mul_by_max() {
    let x: isize = kani::any();
    mul_one(x, isize::MAX);
    kani::cover!(x == isize::MIN);
    kani::cover!(x == isize::MAX / 2 + 1);
}

//@ tier: quick
//@ funcs: <Num as Mul>::mul, num::int_or_big
//@ bounds: all isize multiplicands; multiplier = isize::MIN, on either side
//@ asserts: Int * Int is Int(v) with v == x * y (i128 model) exactly when the product fits isize, BigInt exactly when it does not
#[kani::proof]
#[kani::unwind(8)]
#[kani::stub(<BigInt as core::ops::Mul<BigInt>>::mul, big_dummy2)]
fn c09_mul_by_min() {
    let x: isize = kani::any();
    mul_one(x, isize::MIN);
    kani::cover!(x == isize::MIN);
    kani::cover!(x == isize::MAX / 2 + 1);
}

// ---- mixed machine / big integer arms: operands reach num-bigint in source order ----------------
// num-bigint's own arithmetic cannot be executed (addcarry intrinsic), so these harnesses replace
// it by stubs that RETURN THEIR LEFT OPERAND: what is decided is jaq's dispatch -- which value is
// passed on which side, and that the operation is delegated at all -- not num-bigint's result.
fn left_rr<'a, 'b>(a: &'a BigInt, _b: &'b BigInt) -> BigInt
where
    'a: 'a,
    'b: 'b,
{
    a.clone()
}

//@ tier: quick
//@ funcs: <Num as Sub>::sub (Int/BigInt arms), <Num as Rem>::rem (Int/BigInt arms)
//@ bounds: Int(i) for all isize; a big integer of any value representable in 128 bits; both argument orders; the `-` and `%` operators (not commutative)
//@ assume: <&BigInt as Sub<&BigInt>>::sub and <&BigInt as Rem<&BigInt>>::rem stubbed to return their LEFT operand
//@ asserts: `a - b` and `a % b` hand (a, b) to num-bigint in that order and always delegate (no shortcut that skips the big-number operation), whatever the magnitudes -- so Int - BigInt is not computed as BigInt - Int and no remainder shortcut is taken at +-2^63
#[kani::proof]
#[kani::unwind(6)]
#[kani::stub(<&BigInt as core::ops::Sub<&BigInt>>::sub, left_rr)]
#[kani::stub(<&BigInt as core::ops::Rem<&BigInt>>::rem, left_rr)]
fn c09_mixed_sub_rem_operand_order() {
    let i: isize = kani::any();
    let v: i128 = kani::any();
    let big = || Num::big_int(BigInt::from(v));
    let is_left = |r: &Num, left: i128| match r {
        Num::BigInt(b) => b.to_i128() == Some(left),
        _ => false,
    };
    let r1 = Num::Int(i) - big();
    assert!(is_left(&r1, i as i128));
    let r2 = big() - Num::Int(i);
    assert!(is_left(&r2, v));
    let r3 = Num::Int(i) % big();
    assert!(is_left(&r3, i as i128));
    let r4 = big() % Num::Int(i);
    assert!(is_left(&r4, v));
    kani::cover!(i == isize::MIN && v == 1i128 << 63);
    kani::cover!(v == 1 && i == 5);
    core::mem::forget((r1, r2, r3, r4));
}

fn left_vv(a: BigInt, _b: BigInt) -> BigInt {
    a
}

//@ tier: quick
//@ funcs: <Num as Sub>::sub (Int, Int), <Num as Add>::add (Int, Int), num::int_or_big
//@ bounds: all isize pairs whose difference / sum leaves the isize range (the promoted case)
//@ assume: <BigInt as Sub<BigInt>>::sub and <BigInt as Add<BigInt>>::add stubbed to return their LEFT operand (num-bigint cannot be executed)
//@ asserts: when Int - Int (Int + Int) is promoted, num-bigint receives (x, y) in source order: the stubbed result is x -- so an overflowing x - y is not computed as y - x
#[kani::proof]
#[kani::unwind(8)]
#[kani::stub(<BigInt as core::ops::Sub<BigInt>>::sub, left_vv)]
#[kani::stub(<BigInt as core::ops::Add<BigInt>>::add, left_vv)]
fn c09_promoted_sub_add_operand_order() {
    let (x, y): (isize, isize) = (kani::any(), kani::any());
    let r = Num::Int(x) - Num::Int(y);
    if let Num::BigInt(b) = &r {
        assert!(b.to_i128() == Some(x as i128));
    }
    let s = Num::Int(x) + Num::Int(y);
    if let Num::BigInt(b) = &s {
        assert!(b.to_i128() == Some(x as i128));
    }
    kani::cover!(matches!(r, Num::BigInt(_)) && x < 0);
    kani::cover!(matches!(r, Num::BigInt(_)) && x >= 0);
    kani::cover!(matches!(s, Num::BigInt(_)));
    core::mem::forget((r, s));
}

//@ tier: quick
//@ funcs: Num::as_pos_usize, Num::as_isize (Int and BigInt arms)
//@ bounds: any integer value of the i64 range, once stored as a machine integer and once as a big integer
//@ asserts: integer consumers see the same integer however it is stored: as_isize and the signed position (sign flag, magnitude) agree between Num::Int(v) and Num::BigInt(v) -- in particular for 0 and for negative values
#[kani::proof]
#[kani::unwind(8)]
fn c09_integer_consumers_representation_independent() {
    let v: i64 = kani::any();
    let (m, b) = (Num::Int(v as isize), Num::big_int(BigInt::from(v)));
    assert!(m.as_isize() == b.as_isize());
    match (m.as_pos_usize(), b.as_pos_usize()) {
        (Some(p), Some(q)) => assert!(p.0 == q.0 && p.1 == q.1),
        _ => panic!("an i64 value is a valid position in either representation"),
    }
    kani::cover!(v == 0);
    kani::cover!(v < 0);
    core::mem::forget((m, b));
}

// ---- thorough tier: more literal divisors / multipliers (generated) ----

//@ tier: thorough
//@ funcs: <Num as Rem>::rem
//@ bounds: all isize dividends; divisor = 4
//@ assume: divisor != 0 (guarded by Val::rem)
//@ asserts: Int % Int is Int(x rem y), truncated division
#[kani::proof]
#[kani::unwind(8)]
fn c09_rem_by_p4_t() {
    let x: isize = kani::any();
    rem_one(x, 4);
    kani::cover!(x == isize::MIN);
    kani::cover!(x == -7);
}

//@ tier: thorough
//@ funcs: <Num as Mul>::mul, num::int_or_big
//@ bounds: all isize multiplicands; multiplier = 4, on either side
//@ asserts: Int * Int is Int(v) with v == x * y (i128 model) exactly when the product fits isize, BigInt exactly when it does not
#[kani::proof]
#[kani::unwind(8)]
#[kani::stub(<BigInt as core::ops::Mul<BigInt>>::mul, big_dummy2)]
fn c09_mul_by_p4_t() {
    let x: isize = kani::any();
    mul_one(x, 4);
    kani::cover!(x == isize::MIN);
    kani::cover!(x == isize::MAX / 2 + 1);
}

//@ tier: thorough
//@ funcs: <Num as Rem>::rem
//@ bounds: all isize dividends; divisor = 5
//@ assume: divisor != 0 (guarded by Val::rem)
//@ asserts: Int % Int is Int(x rem y), truncated division
#[kani::proof]
#[kani::unwind(8)]
fn c09_rem_by_p5_t() {
    let x: isize = kani::any();
    rem_one(x, 5);
    kani::cover!(x == isize::MIN);
    kani::cover!(x == -7);
}

//@ tier: thorough
//@ funcs: <Num as Mul>::mul, num::int_or_big
//@ bounds: all isize multiplicands; multiplier = 5, on either side
//@ asserts: Int * Int is Int(v) with v == x * y (i128 model) exactly when the product fits isize, BigInt exactly when it does not
#[kani::proof]
#[kani::unwind(8)]
#[kani::stub(<BigInt as core::ops::Mul<BigInt>>::mul, big_dummy2)]
fn c09_mul_by_p5_t() {
    let x: isize = kani::any();
    mul_one(x, 5);
    kani::cover!(x == isize::MIN);
    kani::cover!(x == isize::MAX / 2 + 1);
}

//@ tier: thorough
//@ funcs: <Num as Rem>::rem
//@ bounds: all isize dividends; divisor = 16
//@ assume: divisor != 0 (guarded by Val::rem)
//@ asserts: Int % Int is Int(x rem y), truncated division
#[kani::proof]
#[kani::unwind(8)]
fn c09_rem_by_p16_t() {
    let x: isize = kani::any();
    rem_one(x, 16);
    kani::cover!(x == isize::MIN);
    kani::cover!(x == -7);
}

//@ tier: thorough
//@ funcs: <Num as Mul>::mul, num::int_or_big
//@ bounds: all isize multiplicands; multiplier = 16, on either side
//@ asserts: Int * Int is Int(v) with v == x * y (i128 model) exactly when the product fits isize, BigInt exactly when it does not
#[kani::proof]
#[kani::unwind(8)]
#[kani::stub(<BigInt as core::ops::Mul<BigInt>>::mul, big_dummy2)]
fn c09_mul_by_p16_t() {
    let x: isize = kani::any();
    mul_one(x, 16);
    kani::cover!(x == isize::MIN);
    kani::cover!(x == isize::MAX / 2 + 1);
}

//@ tier: thorough
//@ funcs: <Num as Rem>::rem
//@ bounds: all isize dividends; divisor = 100
//@ assume: divisor != 0 (guarded by Val::rem)
//@ asserts: Int % Int is Int(x rem y), truncated division
#[kani::proof]
#[kani::unwind(8)]
fn c09_rem_by_p100_t() {
    let x: isize = kani::any();
    rem_one(x, 100);
    kani::cover!(x == isize::MIN);
    kani::cover!(x == -7);
}

//@ tier: thorough
//@ funcs: <Num as Mul>::mul, num::int_or_big
//@ bounds: all isize multiplicands; multiplier = 100, on either side
//@ asserts: Int * Int is Int(v) with v == x * y (i128 model) exactly when the product fits isize, BigInt exactly when it does not
#[kani::proof]
#[kani::unwind(8)]
#[kani::stub(<BigInt as core::ops::Mul<BigInt>>::mul, big_dummy2)]
fn c09_mul_by_p100_t() {
    let x: isize = kani::any();
    mul_one(x, 100);
    kani::cover!(x == isize::MIN);
    kani::cover!(x == isize::MAX / 2 + 1);
}

//@ tier: thorough
//@ funcs: <Num as Rem>::rem
//@ bounds: all isize dividends; divisor = 255
//@ assume: divisor != 0 (guarded by Val::rem)
//@ asserts: Int % Int is Int(x rem y), truncated division
#[kani::proof]
#[kani::unwind(8)]
fn c09_rem_by_p255_t() {
    let x: isize = kani::any();
    rem_one(x, 255);
    kani::cover!(x == isize::MIN);
    kani::cover!(x == -7);
}

//@ tier: thorough
//@ funcs: <Num as Mul>::mul, num::int_or_big
//@ bounds: all isize multiplicands; multiplier = 255, on either side
//@ asserts: Int * Int is Int(v) with v == x * y (i128 model) exactly when the product fits isize, BigInt exactly when it does not
#[kani::proof]
#[kani::unwind(8)]
#[kani::stub(<BigInt as core::ops::Mul<BigInt>>::mul, big_dummy2)]
fn c09_mul_by_p255_t() {
    let x: isize = kani::any();
    mul_one(x, 255);
    kani::cover!(x == isize::MIN);
    kani::cover!(x == isize::MAX / 2 + 1);
}

//@ tier: thorough
//@ funcs: <Num as Rem>::rem
//@ bounds: all isize dividends; divisor = 256
//@ assume: divisor != 0 (guarded by Val::rem)
//@ asserts: Int % Int is Int(x rem y), truncated division
#[kani::proof]
#[kani::unwind(8)]
fn c09_rem_by_p256_t() {
    let x: isize = kani::any();
    rem_one(x, 256);
    kani::cover!(x == isize::MIN);
    kani::cover!(x == -7);
}

//@ tier: thorough
//@ funcs: <Num as Mul>::mul, num::int_or_big
//@ bounds: all isize multiplicands; multiplier = 256, on either side
//@ asserts: Int * Int is Int(v) with v == x * y (i128 model) exactly when the product fits isize, BigInt exactly when it does not
#[kani::proof]
#[kani::unwind(8)]
#[kani::stub(<BigInt as core::ops::Mul<BigInt>>::mul, big_dummy2)]
fn c09_mul_by_p256_t() {
    let x: isize = kani::any();
    mul_one(x, 256);
    kani::cover!(x == isize::MIN);
    kani::cover!(x == isize::MAX / 2 + 1);
}

//@ tier: thorough
//@ funcs: <Num as Rem>::rem
//@ bounds: all isize dividends; divisor = 65536
//@ assume: divisor != 0 (guarded by Val::rem)
//@ asserts: Int % Int is Int(x rem y), truncated division
#[kani::proof]
#[kani::unwind(8)]
fn c09_rem_by_p65536_t() {
    let x: isize = kani::any();
    rem_one(x, 65536);
    kani::cover!(x == isize::MIN);
    kani::cover!(x == -7);
}

//@ tier: thorough
//@ funcs: <Num as Mul>::mul, num::int_or_big
//@ bounds: all isize multiplicands; multiplier = 65536, on either side
//@ asserts: Int * Int is Int(v) with v == x * y (i128 model) exactly when the product fits isize, BigInt exactly when it does not
#[kani::proof]
#[kani::unwind(8)]
#[kani::stub(<BigInt as core::ops::Mul<BigInt>>::mul, big_dummy2)]
fn c09_mul_by_p65536_t() {
    let x: isize = kani::any();
    mul_one(x, 65536);
    kani::cover!(x == isize::MIN);
    kani::cover!(x == isize::MAX / 2 + 1);
}

//@ tier: thorough
//@ funcs: <Num as Rem>::rem
//@ bounds: all isize dividends; divisor = 1000
//@ assume: divisor != 0 (guarded by Val::rem)
//@ asserts: Int % Int is Int(x rem y), truncated division
#[kani::proof]
#[kani::unwind(8)]
fn c09_rem_by_p1000_t() {
    let x: isize = kani::any();
    rem_one(x, 1000);
    kani::cover!(x == isize::MIN);
    kani::cover!(x == -7);
}

//@ tier: thorough
//@ funcs: <Num as Mul>::mul, num::int_or_big
//@ bounds: all isize multiplicands; multiplier = 1000, on either side
//@ asserts: Int * Int is Int(v) with v == x * y (i128 model) exactly when the product fits isize, BigInt exactly when it does not
#[kani::proof]
#[kani::unwind(8)]
#[kani::stub(<BigInt as core::ops::Mul<BigInt>>::mul, big_dummy2)]
fn c09_mul_by_p1000_t() {
    let x: isize = kani::any();
    mul_one(x, 1000);
    kani::cover!(x == isize::MIN);
    kani::cover!(x == isize::MAX / 2 + 1);
}

//@ tier: thorough
//@ funcs: <Num as Rem>::rem
//@ bounds: all isize dividends; divisor = -3
//@ assume: divisor != 0 (guarded by Val::rem)
//@ asserts: Int % Int is Int(x rem y), truncated division
#[kani::proof]
#[kani::unwind(8)]
fn c09_rem_by_m3_t() {
    let x: isize = kani::any();
    rem_one(x, -3);
    kani::cover!(x == isize::MIN);
    kani::cover!(x == -7);
}

//@ tier: thorough
//@ funcs: <Num as Mul>::mul, num::int_or_big
//@ bounds: all isize multiplicands; multiplier = -3, on either side
//@ asserts: Int * Int is Int(v) with v == x * y (i128 model) exactly when the product fits isize, BigInt exactly when it does not
#[kani::proof]
#[kani::unwind(8)]
#[kani::stub(<BigInt as core::ops::Mul<BigInt>>::mul, big_dummy2)]
fn c09_mul_by_m3_t() {
    let x: isize = kani::any();
    mul_one(x, -3);
    kani::cover!(x == isize::MIN);
    kani::cover!(x == isize::MAX / 2 + 1);
}

//@ tier: thorough
//@ funcs: <Num as Rem>::rem
//@ bounds: all isize dividends; divisor = -7
//@ assume: divisor != 0 (guarded by Val::rem)
//@ asserts: Int % Int is Int(x rem y), truncated division
#[kani::proof]
#[kani::unwind(8)]
fn c09_rem_by_m7_t() {
    let x: isize = kani::any();
    rem_one(x, -7);
    kani::cover!(x == isize::MIN);
    kani::cover!(x == -7);
}

//@ tier: thorough
//@ funcs: <Num as Mul>::mul, num::int_or_big
//@ bounds: all isize multiplicands; multiplier = -7, on either side
//@ asserts: Int * Int is Int(v) with v == x * y (i128 model) exactly when the product fits isize, BigInt exactly when it does not
#[kani::proof]
#[kani::unwind(8)]
#[kani::stub(<BigInt as core::ops::Mul<BigInt>>::mul, big_dummy2)]
fn c09_mul_by_m7_t() {
    let x: isize = kani::any();
    mul_one(x, -7);
    kani::cover!(x == isize::MIN);
    kani::cover!(x == isize::MAX / 2 + 1);
}

//@ tier: thorough
//@ funcs: <Num as Rem>::rem
//@ bounds: all isize dividends; divisor = 11
//@ assume: divisor != 0 (guarded by Val::rem)
//@ asserts: Int % Int is Int(x rem y), truncated division
#[kani::proof]
#[kani::unwind(8)]
fn c09_rem_by_p11_t() {
    let x: isize = kani::any();
    rem_one(x, 11);
    kani::cover!(x == isize::MIN);
    kani::cover!(x == -7);
}

//@ tier: thorough
//@ funcs: <Num as Mul>::mul, num::int_or_big
//@ bounds: all isize multiplicands; multiplier = 11, on either side
//@ asserts: Int * Int is Int(v) with v == x * y (i128 model) exactly when the product fits isize, BigInt exactly when it does not
#[kani::proof]
#[kani::unwind(8)]
#[kani::stub(<BigInt as core::ops::Mul<BigInt>>::mul, big_dummy2)]
fn c09_mul_by_p11_t() {
    let x: isize = kani::any();
    mul_one(x, 11);
    kani::cover!(x == isize::MIN);
    kani::cover!(x == isize::MAX / 2 + 1);
}

//@ tier: thorough
//@ funcs: <Num as Rem>::rem
//@ bounds: all isize dividends; divisor = 4294967296
//@ assume: divisor != 0 (guarded by Val::rem)
//@ asserts: Int % Int is Int(x rem y), truncated division
#[kani::proof]
#[kani::unwind(8)]
fn c09_rem_by_p4294967296_t() {
    let x: isize = kani::any();
    rem_one(x, 4294967296);
    kani::cover!(x == isize::MIN);
    kani::cover!(x == -7);
}

//@ tier: thorough
//@ funcs: <Num as Mul>::mul, num::int_or_big
//@ bounds: all isize multiplicands; multiplier = 4294967296, on either side
//@ asserts: Int * Int is Int(v) with v == x * y (i128 model) exactly when the product fits isize, BigInt exactly when it does not
#[kani::proof]
#[kani::unwind(8)]
#[kani::stub(<BigInt as core::ops::Mul<BigInt>>::mul, big_dummy2)]
fn c09_mul_by_p4294967296_t() {
    let x: isize = kani::any();
    mul_one(x, 4294967296);
    kani::cover!(x == isize::MIN);
    kani::cover!(x == isize::MAX / 2 + 1);
}
