// C13 — `length` and slicing count Unicode characters: the character-wise slicing kernel against an
// independent UTF-8 segmentation (the same harness body as c10_skip_take_chars_any_3_bytes, registered
// under C13 because the property's clause "positions count characters" belongs to both).
//@@ mount: jaq-json/src/lib.rs as verif_c13_lib
//@@ prop: C13
#![allow(dead_code, unused_imports)]
use super::*;
use alloc::{vec, vec::Vec}; // for generated concrete-playback tests (no_std crate)
use crate::num::PosUsize;

/// Mathematical value of a `PosUsize`.
fn m_val(p: PosUsize) -> i128 {
    if p.0 {
        p.1 as i128
    } else {
        -(p.1 as i128)
    }
}
/// negative positions count from the end
fn m_abs(i: i128, len: i128) -> i128 {
    if i < 0 {
        len + i
    } else {
        i
    }
}
/// slice bounds are clipped to [0, len]
fn m_clip(x: i128, len: i128) -> i128 {
    if x < 0 {
        0
    } else if x > len {
        len
    } else {
        x
    }
}
/// `null` (None) means open
fn m_bound(b: Option<i128>, len: i128, default: i128) -> i128 {
    match b {
        None => default,
        Some(i) => m_clip(m_abs(i, len), len),
    }
}

/// Arbitrary `PosUsize` satisfying the representation invariant that
/// `Num::as_pos_usize` establishes (see `c10_as_pos_usize_invariant`):
/// a non-positive flag implies magnitude >= 1.
fn any_pos_usize() -> PosUsize {
    let p = PosUsize(kani::any(), kani::any());
    kani::assume(p.0 || p.1 >= 1);
    p
}
fn any_opt_pos() -> Option<PosUsize> {
    if kani::any() {
        Some(any_pos_usize())
    } else {
        None
    }
}

/// Independent UTF-8 segmentation after the Unicode standard (Table 3-7 "Well-Formed UTF-8 Byte
/// Sequences" and the "substitution of maximal subparts" practice): the length in bytes of the
/// character starting at `i`, where an ill-formed MAXIMAL SUBPART (the longest prefix of a well-formed
/// sequence, at least one byte) counts as one character.
fn m_char_len(s: &[u8], i: usize) -> usize {
    let b0 = s[i];
    let at = |k: usize| if i + k < s.len() { Some(s[i + k]) } else { None };
    let is_cont = |b: Option<u8>| matches!(b, Some(0x80..=0xBF));
    let second_ok = |lo: u8, hi: u8| matches!(at(1), Some(b) if lo <= b && b <= hi);
    match b0 {
        0x00..=0x7F => 1,
        0xC2..=0xDF => {
            if second_ok(0x80, 0xBF) {
                2
            } else {
                1
            }
        }
        0xE0..=0xEF => {
            let (lo, hi) = match b0 {
                0xE0 => (0xA0, 0xBF),
                0xED => (0x80, 0x9F),
                _ => (0x80, 0xBF),
            };
            if !second_ok(lo, hi) {
                1
            } else if is_cont(at(2)) {
                3
            } else {
                2
            }
        }
        0xF0..=0xF4 => {
            let (lo, hi) = match b0 {
                0xF0 => (0x90, 0xBF),
                0xF4 => (0x80, 0x8F),
                _ => (0x80, 0xBF),
            };
            if !second_ok(lo, hi) {
                1
            } else if !is_cont(at(2)) {
                2
            } else if is_cont(at(3)) {
                4
            } else {
                3
            }
        }
        _ => 1,
    }
}

//@ tier: quick
//@ funcs: skip_take_chars, bstr::ByteSlice::char_indices
//@ bounds: every byte string of length 3 (all 2^24: 1-, 2- and 3-byte characters, ill-formed sequences); both bounds absent or any PosUsize
//@ assume: PosUsize invariant (as established by as_pos_usize)
//@ asserts: positions count CHARACTERS of an independent UTF-8 segmentation (Unicode Table 3-7; an ill-formed maximal subpart is one character): the byte range returned is [boundary(from), boundary(upto)) of the position model applied to the character count -- so slicing text never splits a character, negative positions count characters from the end, and out-of-range bounds clip
#[kani::proof]
#[kani::unwind(8)]
fn c13_slicing_counts_characters_3_bytes() {
    let b: [u8; 3] = kani::any();
    // character boundaries by the independent model: bnd[k] = byte offset of character k, bnd[n] = 3
    let mut bnd = [3usize; 4];
    let (mut i, mut n) = (0usize, 0usize);
    while i < 3 {
        bnd[n] = i;
        i += m_char_len(&b, i);
        n += 1;
    }
    let (s, e) = (any_opt_pos(), any_opt_pos());
    let (skip, take) = skip_take_chars(s..e, &b);
    let l = n as i128;
    let from = m_bound(s.map(m_val), l, 0);
    let upto = m_bound(e.map(m_val), l, l);
    let (fb, ub) = (bnd[from as usize], bnd[upto as usize]);
    assert!(skip == fb);
    assert!(take == if ub > fb { ub - fb } else { 0 });
    kani::cover!(n == 1);
    kani::cover!(n == 2 && s.is_some() && !s.unwrap().0 && take > 0);
    kani::cover!(n == 3 && b[0] >= 0x80);
}
