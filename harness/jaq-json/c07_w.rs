// C07 — "the writer escapes exactly the bytes the reader unescapes" for JSON/XJON strings, decided by
// composition through an independent model of the string grammar (RFC 8259 §7 plus jaq's documented
// `\xXX` escape for byte strings):
//
//   W: for every byte sequence s of the bounded length, the REAL writer macros `write_utf8!` /
//      `write_bytes!` (instantiated with the crate's own `Buf` writer, exactly as `write_val!` /
//      `format_val!` do for `tojson`) emit  m_escape(s).
//   R: for every such s, the REAL `parse_string` on  m_escape(s)  returns s.
//
// W and R together give parse_string(write(s)) == s for every s within the bound.
//@@ mount: jaq-json/src/write.rs as verif_c07_w
//@@ prop: C07
#![allow(dead_code, unused_imports)]
use super::*;
use crate::verif_c07_model::*;
use alloc::{vec, vec::Vec};
use core::fmt::Write as _;

fn real_write_text(w: &mut Buf, s: &[u8]) -> core::fmt::Result {
    crate::write_utf8!(w, s, |part| w.write_all(part))
}
fn real_write_bytes(w: &mut Buf, s: &[u8]) -> core::fmt::Result {
    crate::write_bytes!(w, s)
}

fn same(w: &Buf, o: &Out) -> bool {
    if w.0.len() != o.n || o.n > CAP {
        return false;
    }
    let mut i = 0;
    while i < o.n {
        if w.0[i] != o.b[i] {
            return false;
        }
        i += 1;
    }
    true
}

//@ prop: C07
//@ tier: attempt
//@ funcs: jaq_json::write_utf8!, jaq_json::write_byte!, jaq_json::write::Buf (fmt::Write), core::fmt::write
//@ bounds: text strings of exactly 1 byte (all 256 values); unwind 12
//@ assume: none
//@ asserts: the writer's output for a one-byte text string is the model escape of that byte between quotes
//@ timeout: 600
#[kani::proof]
#[kani::unwind(12)]
fn c07_w_text_1() {
    let s: [u8; 1] = kani::any();
    let mut w = Buf(Vec::new());
    let r = real_write_text(&mut w, &s);
    assert!(r.is_ok());
    let o = m_escape(&s, true);
    kani::cover!(s[0] == 0x1f);
    kani::cover!(s[0] == b'a');
    assert!(same(&w, &o));
    core::mem::forget(w);
}


fn is_named(c: u8) -> bool {
    matches!(c, 0x08 | 0x0c | b'\t' | b'\n' | b'\r' | b'\\' | b'"')
}
fn is_ctrl(c: u8) -> bool {
    (c < 0x20 || c == 0x7f) && !is_named(c)
}

fn w_text_1(c: u8) {
    let s: [u8; 1] = [c];
    let mut w = Buf(Vec::new());
    let r = real_write_text(&mut w, &s);
    assert!(r.is_ok());
    let o = m_escape(&s, true);
    assert!(same(&w, &o));
    core::mem::forget(w);
}

//@ prop: C07
//@ tier: attempt
//@ funcs: jaq_json::write_utf8!, jaq_json::write_byte!, jaq_json::write::Buf
//@ bounds: one-byte text strings whose byte needs no escape (0x20..=0x7e except backslash and quote, and 0x80..=0xff); unwind 12
//@ assume: the byte class
//@ asserts: writer output == model escape
//@ timeout: 300
#[kani::proof]
#[kani::unwind(12)]
fn c07_w_text_1_raw() {
    let c: u8 = kani::any();
    kani::assume(!is_named(c) && !is_ctrl(c));
    kani::cover!(c == b'a');
    kani::cover!(c == 0xff);
    w_text_1(c);
}

//@ prop: C07
//@ tier: attempt
//@ funcs: jaq_json::write_utf8!, jaq_json::write_byte!, jaq_json::write::Buf, core::fmt (LowerHex for u8, width 4, zero flag)
//@ bounds: one-byte text strings whose byte is a control character without a short escape, or DEL; unwind 12
//@ assume: the byte class
//@ asserts: writer output == model escape (\u00XX, lower-case hex)
//@ timeout: 300
#[kani::proof]
#[kani::unwind(12)]
fn c07_w_text_1_ctrl() {
    let c: u8 = kani::any();
    kani::assume(is_ctrl(c));
    kani::cover!(c == 0x1f);
    kani::cover!(c == 0x7f);
    w_text_1(c);
}

//@ prop: C07
//@ tier: attempt
//@ funcs: jaq_json::write_utf8!, jaq_json::write_byte!, jaq_json::write::Buf, core::char::EscapeDefault
//@ bounds: the seven bytes with a short escape, one straight-line call each; unwind 12
//@ assume: none
//@ asserts: writer output == model escape
//@ timeout: 300
#[kani::proof]
#[kani::unwind(12)]
fn c07_w_text_1_named() {
    kani::cover!(true);
    w_text_1(0x08);
    w_text_1(0x0c);
    w_text_1(b'\t');
    w_text_1(b'\n');
    w_text_1(b'\r');
    w_text_1(b'\\');
    w_text_1(b'"');
}
