// C07 — "the writer escapes exactly the bytes the reader unescapes" for JSON/XJON strings, decided by
// composition through an independent model of the string grammar (RFC 8259 §7 plus jaq's documented
// `\xXX` escape for byte strings):
//
//   W: for every byte sequence s of the bounded length, the REAL writer macros `write_utf8!` /
//      `write_bytes!` (instantiated with the crate's own `Buf` writer, exactly as `write_val!` /
//      `format_val!` do for `tojson`) emit  m_escape(s).
//   R: for every such s, the REAL `parse_string` on  m_escape(s)  returns s.
//
// W and R together give parse_string(write(s)) == s for every s within the bound.
//@@ mount: jaq-json/src/read.rs as verif_c07_r
//@@ prop: C07
#![allow(dead_code, unused_imports)]
use super::*;
use crate::verif_c07_model::*;
use alloc::{vec, vec::Vec};

//@ prop: C07
//@ tier: attempt
//@ funcs: jaq_json::read::parse_string, hifijson::SliceLexer (str_fold, escape, hex)
//@ bounds: text strings of exactly 1 byte below 0x80; unwind 12
//@ assume: none
//@ asserts: parse_string on the model escape of s returns s and consumes the closing quote
//@ timeout: 600
#[kani::proof]
#[kani::unwind(12)]
fn c07_r_text_1() {
    let s: [u8; 1] = kani::any();
    let o = m_escape(&s, true);
    kani::assume(o.n <= CAP);
    let mut lexer = SliceLexer::new(&o.b[1..o.n]);
    let r = parse_string(&mut lexer, false);
    kani::cover!(s[0] == 0x1f);
    kani::cover!(s[0] == b'a');
    match r {
        Ok(v) => {
            assert!(v.len() == 1 && v[0] == s[0]);
            assert!(lexer.as_slice().is_empty());
            core::mem::forget(v);
        }
        Err(_) => assert!(false),
    }
}
