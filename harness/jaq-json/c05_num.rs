// C05 — no panic in jaq-json's number kernels.
//@@ mount: jaq-json/src/num.rs as verif_c05_num
//@@ prop: C05
#![allow(dead_code, unused_imports)]
use super::*;
use alloc::{vec, vec::Vec}; // for generated concrete-playback tests (no_std crate)

//@ tier: quick
//@ funcs: Num::length (Int and Float arms), Num::as_f64, Num::as_isize, Num::as_pos_usize
//@ bounds: all isize, all f64
//@ asserts: Kani's built-in checks under dev-profile semantics (no overflow in abs/negation, no failing unwrap); `length` of an integer is its absolute value as a mathematical integer (promoted when it does not fit)
#[kani::proof]
#[kani::unwind(6)]
fn c05_num_length_no_panic() {
    let i: isize = kani::any();
    let l = Num::Int(i).length();
    match &l {
        Num::Int(v) => assert!(*v as i128 == (i as i128).abs()),
        Num::BigInt(b) => assert!(i == isize::MIN && num_traits::cast::ToPrimitive::to_i128(&**b) == Some(1i128 << 63)),
        _ => panic!("length of an integer is an integer"),
    }
    let f: f64 = kani::any();
    let lf = Num::Float(f).length();
    assert!(matches!(lf, Num::Float(g) if g.is_nan() || g >= 0.0));
    let _ = Num::Int(i).as_f64();
    let _ = Num::Float(f).as_f64();
    kani::cover!(i == isize::MIN);
    kani::cover!(i == -1);
    core::mem::forget((l, lf));
}
