// C08 — one consistent total order on numbers; equal numbers hash alike.
// Child module of jaq-json/src/num.rs: sees the private `float_cmp`, `float_eq`.
//@@ mount: jaq-json/src/num.rs as verif_c08_num
//@@ prop: C08
#![allow(dead_code, unused_imports)]
use super::*;
use alloc::{vec, vec::Vec}; // for generated concrete-playback tests (no_std crate)
use core::cmp::Ordering::{self, *};
use core::hash::{Hash, Hasher};
use alloc::string::ToString;

/// 2^53: beyond this magnitude the property exempts int/float comparisons.
const P53: isize = 1 << 53;

fn any_float_no_nan() -> f64 {
    let f: f64 = kani::any();
    kani::assume(!f.is_nan());
    f
}

/// Independent model of the documented numeric order on non-NaN doubles:
/// IEEE-754 comparison (-Infinity < finite < Infinity, -0.0 == 0.0).
fn m_float(a: f64, b: f64) -> Ordering {
    if a < b {
        Less
    } else if a > b {
        Greater
    } else {
        Equal
    }
}

//@ tier: quick
//@ funcs: num::float_cmp, num::float_eq
//@ bounds: all pairs of non-NaN f64
//@ assume: no NaN (the property's precondition)
//@ asserts: float_cmp == IEEE order (so -0.0 == 0.0, -inf < finite < inf); float_eq <=> Equal; antisymmetry
#[kani::proof]
fn c08_float_cmp_is_ieee_order() {
    let (a, b) = (any_float_no_nan(), any_float_no_nan());
    let c = float_cmp(a, b);
    assert!(c == m_float(a, b));
    assert!(c == float_cmp(b, a).reverse());
    assert!(float_eq(a, b) == (c == Equal));
    kani::cover!(a == 0.0 && b == 0.0 && a.to_bits() != b.to_bits());
    kani::cover!(a == f64::NEG_INFINITY && b.is_finite());
    kani::cover!(c == Greater && b.is_finite() && a == f64::INFINITY);
}

//@ tier: quick
//@ funcs: num::float_cmp
//@ bounds: all triples of non-NaN f64
//@ assume: no NaN
//@ asserts: transitivity of <= on triples
#[kani::proof]
fn c08_float_cmp_transitive() {
    let (a, b, c) = (any_float_no_nan(), any_float_no_nan(), any_float_no_nan());
    if float_cmp(a, b) != Greater && float_cmp(b, c) != Greater {
        assert!(float_cmp(a, c) != Greater);
        if float_cmp(a, b) == Equal && float_cmp(b, c) == Equal {
            assert!(float_cmp(a, c) == Equal);
        }
    }
    kani::cover!(float_cmp(a, b) == Less && float_cmp(b, c) == Less);
    kani::cover!(float_cmp(a, b) == Equal && a.to_bits() != b.to_bits());
}

//@ tier: quick
//@ funcs: <Num as Ord>::cmp, <Num as PartialEq>::eq, num::float_cmp
//@ bounds: Int(i) vs Float(f): all isize with |i| <= 2^53, all non-NaN f64; both argument orders
//@ assume: no NaN; |int| <= 2^53 when compared with a float (the property's precondition)
//@ asserts: cmp equals the exact real-number comparison of i and f; antisymmetric; cmp == Equal <=> eq
#[kani::proof]
fn c08_int_float_cmp_exact() {
    let i: isize = kani::any();
    kani::assume(-P53 <= i && i <= P53);
    let f = any_float_no_nan();
    let (x, y) = (Num::Int(i), Num::Float(f));
    // exact: i converts to f64 without rounding within +-2^53
    let want = m_float(i as f64, f);
    assert!(x.cmp(&y) == want);
    assert!(y.cmp(&x) == want.reverse());
    assert!((x == y) == (want == Equal));
    assert!((y == x) == (want == Equal));
    assert!(x.partial_cmp(&y) == Some(want));
    kani::cover!(want == Equal && i != 0);
    kani::cover!(want == Equal && i == 0 && f.is_sign_negative());
    kani::cover!(f == f64::INFINITY);
    kani::cover!(i == P53 && want == Less && f.is_finite());
    core::mem::forget((x, y));
}

//@ tier: quick
//@ funcs: <Num as Ord>::cmp, <Num as PartialEq>::eq
//@ bounds: Int vs Int: all isize pairs; Int vs +-Infinity: all isize (no 2^53 restriction, as the property states)
//@ asserts: Int order is the integer order; eq <=> same integer; every integer lies strictly between -Infinity and Infinity
#[kani::proof]
fn c08_int_int_and_infinities() {
    let (i, j): (isize, isize) = (kani::any(), kani::any());
    let (x, y) = (Num::Int(i), Num::Int(j));
    assert!(x.cmp(&y) == i.cmp(&j));
    assert!((x == y) == (i == j));
    let (pinf, ninf) = (Num::Float(f64::INFINITY), Num::Float(f64::NEG_INFINITY));
    assert!(x.cmp(&pinf) == Less && pinf.cmp(&x) == Greater && x != pinf);
    assert!(x.cmp(&ninf) == Greater && ninf.cmp(&x) == Less && x != ninf);
    kani::cover!(i == isize::MAX);
    kani::cover!(i == isize::MIN && j == isize::MAX);
    core::mem::forget((x, y, pinf, ninf));
}

/// A number of the given (CONCRETE) representation with a symbolic payload:
/// machine integers with |i| <= 2^53, or non-NaN floats. The representation is kept concrete so
/// that symbolic execution prunes the `Dec`/`BigInt` arms (decimal parsing, heap big numbers).
fn num_of(float: bool) -> Num {
    if float {
        Num::Float(any_float_no_nan())
    } else {
        let i: isize = kani::any();
        kani::assume(-P53 <= i && i <= P53);
        Num::Int(i)
    }
}

//@ tier: quick
//@ funcs: <Num as Ord>::cmp, <Num as PartialEq>::eq, num::float_cmp
//@ bounds: all triples over {Int(i), |i| <= 2^53} u {Float(f), f not NaN}; the 8 representation patterns are case-split (each decided symbolically over all payloads)
//@ assume: no NaN; |int| <= 2^53
//@ asserts: exactly one of <, ==, > (cmp vs eq coherent); antisymmetry; transitivity of <= and of ==, across representations
#[kani::proof]
#[kani::unwind(3)]
fn c08_num_order_axioms_mixed() {
    for fa in [false, true] {
        for fb in [false, true] {
            for fc in [false, true] {
                let (a, b, c) = (num_of(fa), num_of(fb), num_of(fc));
                let (ab, bc, ac) = (a.cmp(&b), b.cmp(&c), a.cmp(&c));
                assert!(b.cmp(&a) == ab.reverse());
                assert!((a == b) == (ab == Equal));
                if ab != Greater && bc != Greater {
                    assert!(ac != Greater);
                }
                if ab == Equal && bc == Equal {
                    assert!(ac == Equal);
                }
                kani::cover!(!fa && fb && ab == Equal);
                kani::cover!(fa && !fb && fc && ab == Less && bc == Less);
                core::mem::forget((a, b, c));
            }
        }
    }
}

// ---------------------------------------------------------------------------
// eq => hash. Observer: a recording hasher that ASSERTS it never truncates
// (a 16-byte recorder once produced a false pass: DESIGN.md §3.1).
// ---------------------------------------------------------------------------
const REC: usize = 40;
struct Rec {
    buf: [u8; REC],
    n: usize,
}
impl Rec {
    fn new() -> Self {
        Rec { buf: [0; REC], n: 0 }
    }
    fn same(&self, o: &Rec) -> bool {
        if self.n != o.n {
            return false;
        }
        let mut i = 0;
        while i < REC {
            if i < self.n && self.buf[i] != o.buf[i] {
                return false;
            }
            i += 1;
        }
        true
    }
}
impl Hasher for Rec {
    fn write(&mut self, bytes: &[u8]) {
        for b in bytes {
            assert!(self.n < REC, "observer must not truncate");
            self.buf[self.n] = *b;
            self.n += 1;
        }
    }
    fn finish(&self) -> u64 {
        0
    }
}
fn stream(n: &Num) -> Rec {
    let mut r = Rec::new();
    n.hash(&mut r);
    r
}

//@ tier: quick
//@ funcs: <Num as Hash>::hash, <Num as PartialEq>::eq, num::float_cmp
//@ bounds: all pairs of non-NaN f64
//@ assume: no NaN
//@ asserts: a == b => identical byte stream fed to the hasher (recording hasher, asserted non-truncating); the stream starts with a tag byte < 2
#[kani::proof]
#[kani::unwind(42)]
fn c08_eq_hash_float_float() {
    let (a, b) = (Num::Float(any_float_no_nan()), Num::Float(any_float_no_nan()));
    let (ha, hb) = (stream(&a), stream(&b));
    assert!(ha.n >= 1 && ha.buf[0] < 2);
    if a == b {
        assert!(ha.same(&hb));
    }
    kani::cover!(a == b && ha.n == 17);
    kani::cover!(a != b && !ha.same(&hb));
    if let (Num::Float(x), Num::Float(y)) = (&a, &b) {
        kani::cover!(a == b && x.to_bits() != y.to_bits());
    }
    core::mem::forget((a, b));
}

//@ tier: quick
//@ funcs: <Num as Hash>::hash, <Num as PartialEq>::eq
//@ bounds: Int(i) vs Float(f), all isize with |i| <= 2^53, all non-NaN f64, both orders
//@ assume: no NaN; |int| <= 2^53
//@ asserts: Int(i) == Float(f) => identical hasher byte stream (1 vs 1.0, 0 vs -0.0)
#[kani::proof]
#[kani::unwind(42)]
fn c08_eq_hash_int_float() {
    let i: isize = kani::any();
    kani::assume(-P53 <= i && i <= P53);
    let f = any_float_no_nan();
    let (a, b) = (Num::Int(i), Num::Float(f));
    let (ha, hb) = (stream(&a), stream(&b));
    if a == b {
        assert!(ha.same(&hb));
    }
    if b == a {
        assert!(hb.same(&ha));
    }
    kani::cover!(a == b && i != 0 && ha.n == 17);
    kani::cover!(a == b && i == 0 && f.is_sign_negative());
    core::mem::forget((a, b));
}

//@ tier: quick
//@ funcs: <Num as Hash>::hash, <Num as PartialEq>::eq
//@ bounds: all isize pairs
//@ asserts: Int(i) == Int(j) => identical hasher byte stream
#[kani::proof]
#[kani::unwind(42)]
fn c08_eq_hash_int_int() {
    let (i, j): (isize, isize) = (kani::any(), kani::any());
    let (a, b) = (Num::Int(i), Num::Int(j));
    let (ha, hb) = (stream(&a), stream(&b));
    if a == b {
        assert!(ha.same(&hb));
    }
    kani::cover!(a == b && ha.n == 17);
    kani::cover!(a != b);
    core::mem::forget((a, b));
}

//@ tier: quick
//@ funcs: <Num as Ord>::cmp (Int/BigInt arms), <Num as PartialEq>::eq (Int/BigInt arms), BigInt::cmp
//@ bounds: Int(i) for all isize vs a big integer holding any value of the i64 range (a SMALL value stored as a big integer, which un-normalised arithmetic produces), both argument orders. Two-digit big integers are in the thorough harness c08_int_bigint2_cmp_exact.
//@ asserts: cmp equals the comparison of the mathematical values, antisymmetric, and == holds exactly when cmp is Equal -- equal integers are interchangeable regardless of representation
#[kani::proof]
#[kani::unwind(10)]
fn c08_int_bigint_cmp_exact() {
    let i: isize = kani::any();
    let v: i64 = kani::any();
    let (x, y) = (Num::Int(i), Num::big_int(BigInt::from(v)));
    let want = (i as i64).cmp(&v);
    assert!(x.cmp(&y) == want);
    assert!(y.cmp(&x) == want.reverse());
    assert!((x == y) == (want == Equal));
    assert!((y == x) == (want == Equal));
    kani::cover!(want == Equal);
    kani::cover!(want == Less && v > 0 && v < 10);
    kani::cover!(v == 0 && i < 0);
    core::mem::forget((x, y));
}

//@ tier: thorough
//@ timeout: 1800
//@ funcs: <Num as Ord>::cmp (Int/BigInt arms), <Num as PartialEq>::eq (Int/BigInt arms), BigInt::cmp
//@ bounds: Int(i) for all isize vs a big integer of any value representable in 128 bits (one or two 64-bit digits), both argument orders
//@ asserts: cmp equals the comparison of the mathematical values (i128); == exactly when Equal
#[kani::proof]
#[kani::unwind(18)]
fn c08_int_bigint2_cmp_exact() {
    let i: isize = kani::any();
    let v: i128 = kani::any();
    let (x, y) = (Num::Int(i), Num::big_int(BigInt::from(v)));
    let want = (i as i128).cmp(&v);
    assert!(x.cmp(&y) == want);
    assert!(y.cmp(&x) == want.reverse());
    assert!((x == y) == (want == Equal));
    kani::cover!(want == Equal);
    kani::cover!(v > isize::MAX as i128);
    kani::cover!(v < isize::MIN as i128);
    core::mem::forget((x, y));
}

fn dec(s: &str) -> Num {
    Num::Dec(Rc::new(s.to_string()))
}

//@ tier: quick
//@ funcs: <Num as PartialEq>::eq (Dec arms), <Num as Ord>::cmp (Dec arms), <Num as Hash>::hash (Dec arm), Num::from_dec_str
//@ bounds: decimal literals "1.0", "1.00", "1e0", "2.50", "-0.0" (concrete spellings: parsing a symbolic string does not decide) against ALL non-NaN f64 and against each other
//@ asserts: an unparsed decimal literal compares, equals and hashes exactly like the float it denotes: Dec(d) == Float(f) <=> value(d) == f, cmp is the IEEE order of the values, equal => same hash stream; different spellings of one value (1.0 / 1.00 / 1e0) are equal, Equal under cmp, and hash alike
#[kani::proof]
#[kani::unwind(42)]
fn c08_dec_literals_behave_like_their_value() {
    let f = any_float_no_nan();
    let x = Num::Float(f);
    let (a, b, c, d, z) = (dec("1.0"), dec("1.00"), dec("1e0"), dec("2.50"), dec("-0.0"));
    assert!((a == x) == (f == 1.0) && (x == a) == (f == 1.0));
    assert!(a.cmp(&x) == m_float(1.0, f) && x.cmp(&a) == m_float(f, 1.0));
    assert!((d == x) == (f == 2.5));
    assert!((z == x) == (f == 0.0));
    if a == x {
        assert!(stream(&a).same(&stream(&x)));
    }
    if z == x {
        assert!(stream(&z).same(&stream(&x)));
    }
    // spellings of the same value
    assert!(a == b && b == a && a == c && c == b);
    assert!(a.cmp(&b) == Equal && b.cmp(&c) == Equal);
    assert!(stream(&a).same(&stream(&b)) && stream(&a).same(&stream(&c)));
    assert!(a != d && a.cmp(&d) == Less && d.cmp(&c) == Greater);
    kani::cover!(f == 1.0);
    kani::cover!(f == 0.0 && f.is_sign_positive());
    core::mem::forget((a, b, c, d, z, x));
}

/// Model of `BigInt::to_f64` on values of the i64 range: the nearest double of the value (Rust's
/// `as f64`; exact for |v| <= 2^53). The real conversion exhausts 12 GB in CBMC.
fn to_f64_model(b: &BigInt) -> Option<f64> {
    b.to_i64().map(|v| v as f64)
}

//@ tier: quick
//@ funcs: <Num as Ord>::cmp (BigInt/Float arms), <Num as PartialEq>::eq (BigInt/Float arms), <Num as Hash>::hash (BigInt arm)
//@ bounds: a big integer holding any value with |v| <= 2^53 (a SMALL value stored as a big integer) vs all non-NaN f64, both argument orders
//@ assume: no NaN; |int| <= 2^53 (the property's precondition); <BigInt as ToPrimitive>::to_f64 replaced by the model `to_i64() as f64` (the real conversion does not decide)
//@ asserts: cmp is the exact real comparison of v and f, antisymmetric; == exactly when Equal; equal => identical hash stream -- a big-integer 1 and the float 1.0 are the same key
#[kani::proof]
#[kani::unwind(42)]
#[kani::stub(<BigInt as num_traits::ToPrimitive>::to_f64, to_f64_model)]
fn c08_bigint_float_cmp_exact() {
    let v: i64 = kani::any();
    kani::assume(-(P53 as i64) <= v && v <= P53 as i64);
    let f = any_float_no_nan();
    let (x, y) = (Num::big_int(BigInt::from(v)), Num::Float(f));
    let want = m_float(v as f64, f);
    assert!(x.cmp(&y) == want);
    assert!(y.cmp(&x) == want.reverse());
    assert!((x == y) == (want == Equal));
    assert!((y == x) == (want == Equal));
    if x == y {
        assert!(stream(&x).same(&stream(&y)));
    }
    kani::cover!(want == Equal && v == 1);
    kani::cover!(want == Equal && v == 0 && f.is_sign_negative());
    kani::cover!(want == Less && v < 0);
    core::mem::forget((x, y));
}
