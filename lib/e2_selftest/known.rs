// Ground-truth functions for validating the MIR->SMT translator against rustc's real MIR output.
// Naming: `ok_*` must be proved at every site; `bad_*` must have at least one candidate site.
#![allow(dead_code)]
pub fn ok_widen_add(x: u8) -> u16 { x as u16 + 1 }
pub fn bad_add_u8(x: u8) -> u8 { x + 1 }
pub fn ok_neg_from_u8(b: u8) -> isize { -(b as isize) }
pub fn bad_neg(i: isize) -> isize { -i }
pub fn ok_guarded_sub(a: usize, b: usize) -> usize { if a >= b { a - b } else { 0 } }
pub fn bad_sub(a: usize, b: usize) -> usize { a - b }
pub fn ok_checked(i: isize) -> isize { match i.checked_neg() { Some(n) => n - 0, None => 0 } }
pub fn bad_scale(i: isize) -> i64 { i as i64 * 1000000 }
pub fn ok_scale_i32(i: i32) -> i64 { i as i64 * 1000000 }
pub fn bad_i8_month(m: i8) -> i8 { m + 1 }
pub fn ok_i8_month(m: i8) -> Option<i8> { m.checked_add(1) }
pub fn ok_div_const(n: usize) -> usize { n / 4 }
pub fn bad_div(n: usize, d: usize) -> usize { n / d }
pub fn ok_loop_sum(xs: &[u8]) -> u64 { let mut s = 0u64; for x in xs { s = s.wrapping_add(*x as u64); } s }
pub fn bad_loop_sum(xs: &[u8]) -> u8 { let mut s = 0u8; for x in xs { s += *x; } s }
pub fn ok_len_plus(a: &[u8], b: &[u8]) -> usize { a.len() + b.len() }
pub fn ok_sat(a: usize, b: usize) -> usize { a.saturating_sub(b) + 1 }
pub fn bad_index(a: [u8; 4], i: usize) -> u8 { a[i] }
pub fn ok_index(a: [u8; 4], i: usize) -> u8 { if i < 4 { a[i] } else { 0 } }
pub fn ok_shift(x: u32) -> u32 { x << 4 }
pub fn bad_shift(x: u32, s: u32) -> u32 { x << s }
pub fn ok_contains_neg(i: isize) -> u8 { if (-255..=0).contains(&i) { (-i) as u8 } else { 0 } }
pub fn bad_contains_neg(i: isize) -> isize { if (isize::MIN..=0).contains(&i) { -i } else { 0 } }
pub fn ok_contains_excl(i: u8) -> u8 { if (0..255).contains(&i) { i + 1 } else { 0 } }
fn bump(x: &mut u8) { *x = 255; }
pub fn bad_mut_arg(a: u8) -> u8 { let mut v = a & 1; bump(&mut v); v + 1 }
pub fn bad_mut_write(a: u8) -> u8 { let mut v = a & 1; let p = &mut v; *p = 255; v + 1 }
pub fn bad_mut_loop(xs: &[u8]) -> u8 { let mut v = 0u8; for _ in xs { bump(&mut v); } v + 1 }
pub fn bad_field_mut(a: u8) -> u8 { let mut t = (a & 1, 0u8); let p = &mut t.0; *p = 255; t.0 + 1 }
pub struct S { x: u8 }
fn setx(s: &mut S) { s.x = 255 }
pub fn bad_struct_mut(a: u8) -> u8 { let mut s = S { x: a & 1 }; setx(&mut s); s.x + 1 }
pub fn bad_ptr_unknown(p: &mut u8, a: u8) -> u8 { let mut v = a & 1; let q = if a > 3 { &mut v } else { p }; *q = 255; v + 1 }
pub fn ok_field_guard(t: (u8, u8)) -> u8 { if t.0 < 10 { t.0 + 1 } else { 0 } }
