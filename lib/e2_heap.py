"""
E2 (functional variant): symbolic execution of the MIR of `jaq_json::bytes_splice` with contracts for
the byte-buffer library calls it makes, decided by z3 and cvc5.

Why: `bytes::BytesMut` keeps flags in pointer bits and CBMC does not decide even one concrete length
pair of `bytes_splice` (DESIGN.md §2.3).  The function itself is 16 basic blocks of integer
arithmetic and six library calls, so its MIR is interpreted here instead:

  * integers: exactly as in lib/e2.py (bit-vectors, WithOverflow asserts are obligations);
  * the buffer `*_1` is a pair (contents: Array (_ BitVec 64) (_ BitVec 8), len), the replacement
    `_4` likewise; `Range { start, end }` aggregates are field pairs;
  * library CONTRACTS (trusted, from the std / bytes documentation):
      BytesMut::len(b)                -> b.len
      BytesMut::resize(b, n, v)       -> bytes [len, n) := v when n > len; len := n
      BytesMut::truncate(b, n)        -> len := min(len, n)
      <BytesMut as DerefMut>::deref_mut(b) -> the slice b[0..len]
      [u8]::copy_within(s, r, dest)   -> PANICS unless r.start <= r.end <= len and dest <= len - (r.end - r.start);
                                         s[dest + i] := OLD s[r.start + i]   (memmove)
      <[u8] as IndexMut<Range>>::index_mut(s, r) -> PANICS unless r.start <= r.end <= len; the sub-slice
      [u8]::copy_from_slice(d, src)   -> PANICS unless d.len == src.len; d[i] := src[i]
  * every path entry -> return is followed (4 paths); at `return` the postcondition is checked.

Obligations, for ALL buffer contents and ALL lengths with len, rlen <= BOUND (stated bound; element-wise
expansion up to 2*BOUND, no quantifiers), under the precondition skip + take <= len that `skip_take`
establishes (Kani harness c10_skip_take_model):
  (P) no overflow assertion and no library panic is reachable;
  (F) result == old[..skip] ++ replacement ++ old[skip+take..], and result.len == len - take + rlen.
A `sat` answer is replayed through the jaq binary (string slice update) before it is reported.
"""
import os
import re
import subprocess
import time

import e2

BOUND = 4
W = 64


def bv(n):
    return f"(_ bv{n} {W})"


class Heap(e2.Enc):
    """Enc + a byte-buffer heap for the callee contracts of bytes_splice."""

    def __init__(self, fn):
        super().__init__(fn)
        self.oblig = []          # (description, smt condition that must hold)
        self.objs = {}           # object name -> dict(arr, len)
        self.refs = {}           # local -> ("buf"|"slice", obj, offset_term, len_term)
        self.ranges = {}         # local -> (start, end)
        self.k = 0

    def new_arr(self):
        self.k += 1
        name = f"arr{self.k}"
        self.decls.append(f"(declare-const {name} (Array (_ BitVec {W}) (_ BitVec 8)))")
        return name

    def setup(self):
        # _1: &mut BytesMut, _2 skip, _3 take, _4: &[u8]
        a0, r0 = self.new_arr(), self.new_arr()
        self.decls.append(f"(declare-const len0 (_ BitVec {W}))")
        self.decls.append(f"(declare-const rlen (_ BitVec {W}))")
        self.objs["B"] = {"arr": a0, "len": "len0"}
        self.objs["R"] = {"arr": r0, "len": "rlen"}
        self.old = (a0, "len0")
        self.refs["_1"] = ("buf", "B", bv(0), None)
        self.refs["_4"] = ("slice", "R", bv(0), "rlen")
        skip, _ = self.read("_2")
        take, _ = self.read("_3")
        self.skip, self.take = skip, take
        self.asserts.append(f"(bvule len0 {bv(BOUND)})")
        self.asserts.append(f"(bvule rlen {bv(BOUND)})")
        # precondition established by skip_take: skip + take <= len (no wrap: all <= BOUND after this)
        self.asserts.append(f"(bvule {skip} len0)")
        self.asserts.append(f"(bvule {take} (bvsub len0 {skip}))")

    # -- statements ------------------------------------------------------------------------
    def assign(self, lhs, rhs):
        lhs, rhs = lhs.strip(), rhs.strip()
        m = re.match(r"^core::ops::Range::<usize> \{ start: (.*), end: (.*) \}$", rhs)
        if m:
            s, _ = self.operand(m.group(1))
            t, _ = self.operand(m.group(2))
            self.ranges[lhs] = (s, t)
            return
        m = re.match(r"^PtrMetadata\((?:copy|move) (_\d+)\)$", rhs)
        if m and m.group(1) in self.refs:
            kind, obj, off, ln = self.refs[m.group(1)]
            self.env[lhs] = (ln if ln is not None else self.objs[obj]["len"], "usize")
            return
        m = re.match(r"^&(?:mut )?\(\*(_\d+)\)$", rhs)
        if m and m.group(1) in self.refs:
            self.refs[lhs] = self.refs[m.group(1)]
            return
        m = re.match(r"^&(?:mut )?(_\d+)$", rhs)
        if m and m.group(1) in self.ranges:
            self.ranges[lhs] = self.ranges[m.group(1)]
            return
        m = re.match(r"^(?:copy|move) (_\d+)$", rhs)
        if m and m.group(1) in self.refs:
            self.refs[lhs] = self.refs[m.group(1)]
            return
        if m and m.group(1) in self.ranges:
            self.ranges[lhs] = self.ranges[m.group(1)]
            return
        super().assign(lhs, rhs)

    # -- calls -----------------------------------------------------------------------------
    def call(self, term):
        m = re.match(r"^(.*?) = (.*?)\((.*)\) -> ", term)
        lhs, callee, args = m.group(1).strip(), m.group(2), e2.split_args(m.group(3))
        arg = [re.sub(r"^(copy|move) ", "", a.strip()) for a in args]
        B = self.objs["B"]
        if callee.endswith("as Clone>::clone") and arg and arg[0] in self.ranges:
            self.ranges[lhs] = self.ranges[arg[0]]
        elif callee == "BytesMut::len":
            self.env[lhs] = (B["len"], "usize")
        elif callee == "BytesMut::resize":
            n, _ = self.operand(args[1])
            v, _ = self.operand(args[2])
            new = self.new_arr()
            for i in range(2 * BOUND + 1):
                keep = f"(select {B['arr']} {bv(i)})"
                self.asserts.append(
                    f"(= (select {new} {bv(i)}) (ite (and (bvuge {bv(i)} {B['len']}) (bvult {bv(i)} {n})) {v} {keep}))")
            B["arr"], B["len"] = new, n
        elif callee == "BytesMut::truncate":
            n, _ = self.operand(args[1])
            B["len"] = f"(ite (bvult {n} {B['len']}) {n} {B['len']})"
        elif callee.endswith("deref_mut"):
            self.refs[lhs] = ("slice", "B", bv(0), B["len"])
        elif "copy_within" in callee:
            kind, obj, off, ln = self.refs[arg[0]]
            s, t = self.ranges[arg[1]]
            d, _ = self.operand(args[2])
            cnt = f"(bvsub {t} {s})"
            self.oblig.append(("copy_within: src range in bounds", f"(and (bvule {s} {t}) (bvule {t} {ln}))"))
            self.oblig.append(("copy_within: dest in bounds", f"(and (bvule {cnt} {ln}) (bvule {d} (bvsub {ln} {cnt})))"))
            O = self.objs[obj]
            new = self.new_arr()
            for i in range(2 * BOUND + 1):
                idx = bv(i)
                inside = f"(and (bvuge {idx} {d}) (bvult (bvsub {idx} {d}) {cnt}))"
                src = f"(select {O['arr']} (bvadd {s} (bvsub {idx} {d})))"
                self.asserts.append(f"(= (select {new} {idx}) (ite {inside} {src} (select {O['arr']} {idx})))")
            O["arr"] = new
        elif "index_mut" in callee:
            kind, obj, off, ln = self.refs[arg[0]]
            s, t = self.ranges[arg[1]]
            self.oblig.append(("index_mut: range in bounds", f"(and (bvule {s} {t}) (bvule {t} {ln}))"))
            self.refs[lhs] = ("slice", obj, f"(bvadd {off} {s})", f"(bvsub {t} {s})")
        elif "copy_from_slice" in callee:
            kind, obj, off, ln = self.refs[arg[0]]
            k2, o2, off2, ln2 = self.refs[arg[1]]
            self.oblig.append(("copy_from_slice: equal lengths", f"(= {ln} {ln2})"))
            O, S = self.objs[obj], self.objs[o2]
            new = self.new_arr()
            for i in range(2 * BOUND + 1):
                idx = bv(i)
                inside = f"(and (bvuge {idx} {off}) (bvult (bvsub {idx} {off}) {ln}))"
                src = f"(select {S['arr']} (bvadd {off2} (bvsub {idx} {off})))"
                self.asserts.append(f"(= (select {new} {idx}) (ite {inside} {src} (select {O['arr']} {idx})))")
            O["arr"] = new
        else:
            raise RuntimeError(f"bytes_splice calls something without a contract: {callee}")

    def post(self):
        B, R = self.objs["B"], self.objs["R"]
        a0, l0 = self.old
        want_len = f"(bvadd (bvsub {l0} {self.take}) rlen)"
        conds = [f"(= {B['len']} {want_len})"]
        for i in range(2 * BOUND + 1):
            idx = bv(i)
            want = (f"(ite (bvult {idx} {self.skip}) (select {a0} {idx}) "
                    f"(ite (bvult {idx} (bvadd {self.skip} rlen)) (select {R['arr']} (bvsub {idx} {self.skip})) "
                    f"(select {a0} (bvadd (bvsub {idx} rlen) {self.take}))))")
            conds.append(f"(=> (bvult {idx} {want_len}) (= (select {B['arr']} {idx}) {want}))")
        return "(and " + " ".join(conds) + ")"


def run_paths(fn, solvers, stats):
    """-> list of result dicts, one per (path, obligation)"""
    blocks = {b: v for b, v in fn.blocks.items() if not v["cleanup"]}
    entry = fn.order[0]
    out = []

    def walk(b, path):
        term = blocks[b]["term"] or ""
        if term.startswith("return"):
            out.append(list(path) + [(b, None, None, None)])
            return
        for (t, k, d) in e2.succs(term):
            if t in blocks and len(path) < 64:
                path.append((b, t, k, d))
                walk(t, path)
                path.pop()
    walk(entry, [])
    results = []
    for path in out:
        h = Heap(fn)
        h.setup()
        for (b, t, k, d) in path:
            for st in blocks[b]["stmts"]:
                m = re.match(r"^(.*?) = (.*)$", st)
                if m and not st.startswith(("StorageLive", "StorageDead", "FakeRead", "PlaceMention", "nop", "Retag")):
                    h.assign(m.group(1), m.group(2))
            if t is None:
                break
            if k == "call":
                n0 = len(h.oblig)
                h.call(d)
                # each new library precondition is an obligation at this point of the path ...
                for (desc, cond) in h.oblig[n0:]:
                    r, mdl = e2.query(h, f"(not {cond})", solvers, stats)
                    results.append({"path": [p[0] for p in path], "what": desc, "res": r, "model": mdl})
                    h.asserts.append(cond)      # ... and an assumption afterwards (execution continued)
            elif k == "assert":
                c = h.assert_cond(d)
                msg = e2.split_args(d)[1].strip('"') if len(e2.split_args(d)) > 1 else "assert"
                if c is not None:
                    r, mdl = e2.query(h, f"(not {c})", solvers, stats)
                    results.append({"path": [p[0] for p in path], "what": msg, "res": r, "model": mdl})
                    h.asserts.append(c)
            else:
                h.edge(k, d)
        # reachable at all? (vacuity) and postcondition
        r0, _ = e2.query(h, "true", solvers, stats)
        if r0 == "sat":
            r, mdl = e2.query(h, f"(not {h.post()})", solvers, stats)
            results.append({"path": [p[0] for p in path], "what": "POST result == old[..skip] ++ repl ++ old[skip+take..]",
                            "res": r, "model": mdl, "feasible": True})
        else:
            results.append({"path": [p[0] for p in path], "what": "path infeasible", "res": "unsat", "model": None, "feasible": False})
    return results


REPLAY_PROGS = [
    ('"abcdef" | .[1:2] |= "XYZ"', '"aXYZcdef"'), ('"abcdef" | .[2:2] = "--"', '"ab--cdef"'),
    ('"abcdef" | .[1:4] = "X"', '"aXef"'), ('"abcdef" | .[0:6] = ""', '""'), ('"abc" | .[3:] = "de"', '"abcde"'),
    ('"abc" | .[:0] = "xy"', '"xyabc"'), ('"abcd" | .[1:3] = "XY"', '"aXYd"'), ('("abcd"|tobytes) | .[1:2] = ("XYZ"|tobytes) | tostring', '"aXYZcd"'),
    ('"ab" | .[0:1] = "XY"', '"XYb"'), ('"abcd" | .[1:3] |= empty', '"ad"'),
]


def run_job(job, overlay, scratch):
    global BOUND
    BOUND = int(job.get("bound", 4))
    t0 = time.time()
    stats = {"queries": 0, "solver_s": 0.0, "disagreements": 0, "replays": 0}
    r = {"harness": job["name"], "engine": "E2 mir->smt with heap contracts (z3 + cvc5)", "verdict": "inconclusive", "reason": "",
         "failed": [], "checks_total": 0, "checks_passed": 0, "checks_unreachable": 0,
         "functions": ["jaq_json::bytes_splice (MIR, all paths)"],
         "bounds": f"all buffer contents, all lengths len, rlen <= {BOUND}, all skip/take with skip + take <= len; element-wise up to index {2 * BOUND}",
         "assumptions": ["precondition skip + take <= len (established by skip_take: Kani harness c10_skip_take_model)",
                         "library contracts for BytesMut::{len,resize,truncate,deref_mut}, [u8]::{copy_within,copy_from_slice}, IndexMut<Range> as stated in lib/e2_heap.py"],
         "asserts": "no overflow assertion and no library panic reachable; result == old[..skip] ++ replacement ++ old[skip+take..] with the right length",
         "covers_total": None, "covers_satisfied": None}
    sv = e2.solvers()
    if len(sv) < 2:
        r["reason"] = "need both z3 and cvc5"
        return r
    try:
        fns = [f for f in e2.parse_mir(e2.dump_mir(overlay, "jaq-json", os.path.join(scratch, "heap-" + job["name"]))) if f.name == "bytes_splice"]
        if len(fns) != 1:
            r["reason"] = "bytes_splice not found in the MIR of jaq-json (renamed?)"
            return r
        res = run_paths(fns[0], sv, stats)
    except Exception as ex:
        r["reason"] = f"encoding failed (a call without a contract, or the MIR shape changed): {type(ex).__name__}: {ex}"[:400]
        return r
    r["queries"], r["solver_s"] = stats["queries"], round(stats["solver_s"], 2)
    r["checks_total"] = len(res)
    bad = [x for x in res if x["res"] == "sat"]
    err = [x for x in res if x["res"] == "error"]
    r["checks_passed"] = len([x for x in res if x["res"] == "unsat"])
    r["e2_sites"] = [{"path": "->".join(x["path"]), "obligation": x["what"], "verdict": x["res"]} for x in res]
    feasible = [x for x in res if x.get("feasible")]
    r["wall_s"] = round(time.time() - t0, 1)
    if err:
        r["reason"] = "solver error / disagreement on: " + "; ".join(x["what"] for x in err[:3])
        return r
    if bad:
        jaq_bin = e2.build_jaq(overlay, os.path.join(scratch, "heap-" + job["name"]))
        rep = None
        if jaq_bin:
            for (prog, want) in REPLAY_PROGS:
                stats["replays"] += 1
                try:
                    p = subprocess.run([jaq_bin, "-nc", prog], capture_output=True, text=True, timeout=20)
                except subprocess.TimeoutExpired:
                    continue
                got = p.stdout.strip()
                if p.returncode == 101 or got != want:
                    rep = {"program": prog, "expected": want, "got": got, "exit": p.returncode, "stderr": p.stderr[-200:]}
                    break
        r["replays"] = stats["replays"]
        if rep:
            r["verdict"] = "violated"
            for x in bad[:4]:
                r["failed"].append({"category": "e2-heap", "description": x["what"], "function": "bytes_splice",
                                    "file": "jaq-json/src/lib.rs", "line": "->".join(x["path"]), "model": x["model"]})
            r["replay"] = {"reproduced": True, "detail": f"jaq (dev profile, overlay build): `{rep['program']}` gives {rep['got'] or 'exit ' + str(rep['exit'])}, expected {rep['expected']}", "tests": [rep]}
        else:
            r["reason"] = "solver: obligation can fail (" + "; ".join(x["what"] for x in bad[:3]) + ") but no replay program reproduces it"
        return r
    if len(feasible) < 2:
        r["reason"] = "vacuity guard: fewer than 2 feasible paths reached `return`"
        return r
    r["verdict"] = "held"
    return r


if __name__ == "__main__":
    import sys
    import tempfile
    import shutil
    import json
    root = sys.argv[1] if len(sys.argv) > 1 else "/repo"
    scratch = tempfile.mkdtemp(prefix="jaqverif-e2h-")
    try:
        ov = os.path.join(scratch, "repo")
        subprocess.run(["rsync", "-a", "--exclude", "/target", "--exclude", ".git", root + "/", ov + "/"], check=True)
        print(json.dumps(run_job({"name": "e2_bytes_splice_functional"}, ov, scratch), indent=1))
    finally:
        shutil.rmtree(scratch, ignore_errors=True)
