#!/usr/bin/env python3
"""Regenerates /verif/MANIFEST.json from the table below (kept in one place so it stays valid)."""
import json, os
V = os.path.dirname(os.path.dirname(os.path.abspath(__file__)))

CLAIMED = {
 # id: (design_ref, level text, level note)
 "C08": ("§4 C08",
   "Bounded model checking (Kani/CBMC over the compiled jaq-json crate) of the number order and hash: for ALL non-NaN f64 and ALL isize "
   "(|int| <= 2^53 against floats, as the property allows) cmp is the IEEE/integer order, antisymmetric, transitive, coherent with ==, and "
   "a == b implies the identical byte stream into the hasher; Int vs a small value stored as BigInt compares exactly; unparsed decimal literals "
   "(1.0 / 1.00 / 1e0) behave like their value; scalar kinds follow null < false < true < number < string. Narrow: BigInt vs Float, "
   "arrays, objects, sort/unique/group_by and IndexMap lookup itself are outside the claim.",
   "Trusts Kani 0.68/CBMC 6.11/CaDiCaL; dev-profile semantics; strings restricted to the empty string in the Val-level harnesses; "
   "number-vs-number comparison is decided on Num directly, not through Val (undecided there)."),
 "C09": ("§4 C09",
   "Bounded model checking of machine-integer + - * % neg and conversions of jaq_json::Num against a 128-bit model: for ALL isize operands "
   "the result is the exact integer, Int exactly when it fits isize and BigInt exactly when not (full symbolic 64x64 product included); "
   "mixed and promoted arms hand their operands to num-bigint in source order; integer consumers see the same value in either representation; "
   "% for 10 literal divisors incl. -1/isize::MIN. Narrow: the VALUE of promoted results of + - * (num-bigint uses an x86 addcarry intrinsic "
   "Kani cannot execute; stubbed), BigInt x BigInt, floats/Dec, non-numeric operators and integer consumers are outside the claim.",
   "Stubs: <BigInt as Add/Sub/Mul<BigInt>> replaced by a dummy where only the promotion decision is asserted. % with a symbolic divisor is "
   "not decided by CBMC (divider circuits) and is left to engine E2 / outside."),
 "C03": ("§4 C03",
   "Bounded model checking of jaq-core's single-output fast paths against a counting source iterator with an ARBITRARY lawful size_hint: "
   "next_if_one, map_with and collect_if_once never consume an item of a stream that may have more than one pending output, and map_with "
   "consumes exactly k source items for k outputs; jaq's own Explode iterator reports a lawful size_hint at every step (all 3-byte strings); the real limit! / first! / last! macros, driven by that counting source, pull f exactly once per "
   "output for EVERY isize count (limit never computes the ($n+1)-th output, first computes one, last stops at the first error); the first output of foreach (real fold::fold) is delivered after one update result. Narrow: every interpreter arm (Comma, Alt, label, try), flat_map_* (undecided: CBMC's "
   "over-approximated dyn dispatch), Stack, the lazy list, nth/isempty/any/all (defined in jq), inputs and the CLI loop are outside the claim.",
   "Sources of <= 3 u8 items; instantiation Iterator = harness type Src. Thorough tier retries the flat-map, Stack and lazy-list harnesses under a 40 min cap."),
 "C05": ("§4 C05",
   "Bounded model checking of panic-freedom (Kani's overflow / cast / bounds / unwrap checks, dev-profile semantics) for jaq's own numeric kernels: "
   "implode on any isize, round/floor/ceil on any f64, Num::length on any isize/f64, broken-down-time conversion on any six isize fields and any f64 seconds; "
   "plus (engine E2) every arithmetic-overflow assertion in the MIR of the listed time / slicing functions under havoc'd callees. Narrow: lexer, parser, compiler, "
   "format decoders, diagnostics rendering and panics reachable only through the interpreter are outside the claim.",
   "alloc::fmt::format and jiff::Error's Display are stubbed where error TEXT is not the subject; generic code instantiated at the harness value type MV."),
 "C12": ("§4 C12",
   "Bounded model checking of floor/round/ceil (jaq-std ValTx::round) for ALL f64: a machine-integer result equals the IEEE-rounded value exactly (i128 comparison), "
   "values beyond +-2^63 take the big-number path, integers and non-finite values pass through. Narrow: only this one built-in of the property's list; "
   "sort_by/group_by/min_by/max_by engines did not decide (Vec/Exn drop glue) and every jq-defined filter is outside the claim.",
   "alloc::fmt::format stubbed; V = MV."),
 "C13": ("§4 C13",
   "Bounded model checking of explode / implode against an INDEPENDENT strict UTF-8 codec written in the harness: implode([x]) is the codec's "
   "encoding for EVERY isize x (scalar values, negated bytes, errors otherwise); Explode yields the codec's decoding for EVERY byte string of "
   "length 3 and 4 (2^24 + 2^32 strings: all characters, truncated / overlong / surrogate / out-of-range forms, every ill-formed byte as its own "
   "negative number); the codec round-trips; hence `explode | implode` is the identity on those strings. Character-wise slicing "
   "(skip_take_chars) follows an independent Unicode segmentation on every 3-byte string. The byte->character offset mapping behind every regex "
   "result (regex::ByteChar::char_of_byte: match/scan/capture/splits/sub offsets) equals that segmentation for every 2-byte (quick) and 3- and 4-byte (thorough) "
   "string and TWO consecutive queries with any offsets in any order (the decreasing order exercises the restart). Narrow: base64/URI/HTML codecs, the regex engine itself and Match.length, "
   "split/join, ascii_*case and every escaping formatter (@sh, @csv, @tsv, @json, @html, @uri) are outside the claim.",
   "Composition: implode works element by element (one push/extend per element), so per-element encoding + decoding + model round trip give the "
   "string identity; the direct round-trip harness (Vec growth in a loop) does not decide and is kept as an attempt. alloc::fmt::format stubbed."),
 "C14": ("§4 C14",
   "Bounded model checking of the YAML plain-scalar round trip by composition through an INDEPENDENT interpolant written from the core schema "
   "(keyword, or optional sign then a digit / a dot and a digit / an infinity spelling): (R) if the real reader functions parse_int / parse_float "
   "resolve an ASCII string to a number, the string is number-like (all strings of length 1..4 for integers, 1..2 for floats, 3 thorough); (W) every "
   "keyword- or number-like ASCII string of length 1..3 (4 thorough) is quoted by the real must_quote, and so is every such string in the families "
   "`.xxx` (4 bytes), sign + `.xxx` (5 bytes: the signed infinities) and `f`/`F` + 4 bytes (`false`), family prefix concrete, rest symbolic; for the sign + `.xxx` family R is decided too (parse_int, parse_float on all 2 x 2^21 strings). R and W give: a text string written as a plain "
   "scalar is read back as a string. Narrow: saphyr's scanner between writer and reader, non-ASCII and longer strings, byte strings, keys, special "
   "floats, the reader's own schema conformance (e.g. `0x+f`), CBOR, TOML, XML, CSV/TSV and --from/--to are outside the claim.",
   "Stubs: Num::from_str_radix by a sign-and-digits model, <Num as Neg>::neg by the identity, alloc::fmt::format; the reader's keyword list is restated in the model. "
   "The direct (uncomposed) harness does not decide and is kept as an attempt. The interpolant has slack on both sides so that P-preserving changes raise no alarm."),
 "C15": ("§4 C15",
   "Bounded model checking of operator precedence: the real `impl Op for BinaryOp` is order-isomorphic to the manual's table for all 25 operators (625 pairs) with the "
   "documented associativity; prec_climb::climb groups `a op1 b op2 c` as the table says for one operator per level (49 pairs quick, 144 thorough) "
   "and `a op1 b op2 c op3 d` as an independent reference parse (27 triples quick, 81 thorough); "
   "`a as $x | b op c` and `a as $x | b as $y | c op d` extend bindings to the right (real Term::climb). Narrow: lexer trivia, atoms, postfix `?`, and every shorthand are outside the claim.",
   "climb1 is decided with operators carrying the table's levels (shown isomorphic to the real precedences by a separate harness), because a symbolic BinaryOp does not decide."),
 "C20": ("§4 C20",
   "Bounded model checking of the time kernels at V = MV: broken-down arrays over ANY six isize fields never overflow and are accepted only with every field in its calendar "
   "range (DateTime carrying exactly those fields); a non-integer in an integer field is rejected; ANY f64 seconds: NaN/inf/out-of-range rejected, accepted => floor; "
   "float epochs: NaN rejected, result == trunc(f*1e6); E2: no arithmetic panic site in the time functions. "
   "Narrow: jiff's calendar arithmetic vs an independent days-from-civil, strftime/strptime, ISO text, time zones, and mktime/gmtime's zoned conversions are outside the claim.",
   "jiff::Error's Display stubbed; jiff's own range checks are executed (DateTime::new) but Timestamp::from_second/from_microsecond error paths do not decide and are outside."),
 "C11": ("§4 C11",
   "Bounded model checking of the natively implemented stream combinators, i.e. the REAL macros limit!, skip!, first!, last!, while_gtz! and the generator range() of jaq-core/src/funs.rs, "
   "instantiated with a harness-side context whose filter argument is a counting source: limit($n; f) is the first min(ceil($n), length) items for EVERY isize and half-integer $n, pulls f exactly once per output (never the next one) and never starts f for $n <= 0; "
   "skip($n; f) is the errors among the first $n items followed by the rest ($n in {-1, 0, 0.5, 1, 1.5, 2, 3, 4, isize::MAX} as literals); hence limit ++ skip = f on error-free streams; first / last = first item / last item or first error; "
   "range($from; $to; $by) on machine integers obeys `if TEST then $from, range($from+$by; ...) else empty` from EVERY integer state (< / > / != by the sign of $by), an overflowing step is reported once and ends the stream, a non-numeric start yields itself and then the error of the addition (also for a zero step); the first output of foreach (real fold::fold) is delivered after exactly one update result. "
   "Streams of <= 3 items (6 thorough), each an output or an error. Narrow: the same macros' `paths` instances, range on floats / strings / arrays, and everything defined in jq (defs.jq: range/1,2, repeat, recurse, while, until, select, isempty, all, any, nth, add) "
   "or by the fold engine beyond its first output (reduce / foreach: the first pull of the real fold::fold is decided - one update result and one input item are computed before the first output - a second pull exhausts 12 GB) are outside the claim.",
   "V = MV (machine integers, exact-or-error arithmetic); item type Result<u8, Error<MV>> so that no other trait object in the crate shares the virtual call's signature. The generator's step relation is decided two pulls at a time "
   "(a third pull exhausts 16 GB), which observes the successor state through one further output only."),
 "C10": ("§4 C10",
   "Bounded model checking of the position kernels (PosUsize::wrap, abs_bound, abs_index, skip_take, Val::range_int, Num::as_pos_usize) "
   "against an independent i128 position model: for ALL usize lengths and ALL signed positions (full usize magnitude, so big-integer "
   "indices too), negative counts from the end, bounds clip to [0,len], null is open, skip+take <= len; character positions equal byte "
   "positions on strings of one-byte characters incl. an invalid byte (len <= 2); on EVERY 3-byte string character positions follow an independent Unicode segmentation; bytes_splice == old[..skip] ++ repl ++ old[skip+take..] "
   "for all contents and lengths <= 4 (MIR + library contracts, z3/cvc5). Narrow: multi-byte characters, objects, has/length/keys, "
   "destructuring and update semantics through Val / the interpreter are outside the claim.",
   "Assumes the PosUsize representation invariant (negative => magnitude >= 1), itself shown to be established by as_pos_usize."),
}

NA = {
 "C01": "needs symbolic execution of the compiler (B-tree maps) and of the lazy interpreter (boxed dyn Iterator chains, Rc lists) on symbolic programs: probes on a 5-term program / 3-binder AST were undecided at 22 min / 9 GB and 12 min / 7.7 GB (DESIGN.md §2.3)",
 "C02": "agreement of the three evaluators Id::run / Id::paths / Id::update is a property of the interpreter (see C01); the value-level position primitives updates bottom out in are decided under C10",
 "C04": "stack depth and retained heap as a function of iteration count are not assertions over program states a bounded model checker encodes; the call classification producing them lives in compile.rs (out of reach, see C01)",
 "C06": "absence of system calls over all filters and documents is a whole-program call-graph property including third-party decoders; Kani cannot execute FFI or I/O and nothing in this technique family observes the system-call boundary",
 "C07": "print-then-parse needs core::fmt on the write side (formatting is the subject and cannot be stubbed) and hifijson/Bytes on the read side: the 1-byte to_json -> parse_single probe was undecided at 25 min / 7.6 GB, and the split through an independent string-grammar model (writer macros alone: timeout 600 s on one symbolic byte; parse_string alone: out of memory at 12 GB on one symbolic byte, 77 s on one concrete byte) does not decide either; not claimed (DESIGN.md §4)",
 "C16": "module loading is file-system calls (canonicalize, read_to_string), a typed arena and the compiler's B-tree maps; no symbolic file system is available",
 "C17": "process-level behaviour (stdout bytes, exit status); Cli::parse is bound to std::env::ArgsOs and cannot be driven symbolically without generalising its type",
 "C18": "quantifies over crash points and file-system states during tempfile/rename/set_permissions; no symbolic file system, and Kani cannot execute the calls",
 "C19": "quantifies over thread schedules; Kani does not model threads, and Send + Sync is decided by the type checker, not a solver",
}

def main():
    extra = json.load(open(os.path.join(V, "lib", "manifest_extra.json"))) if os.path.exists(os.path.join(V, "lib", "manifest_extra.json")) else {}
    checks = []
    for pid, (ref, text, note) in sorted(CLAIMED.items()):
        checks.append({
            "property_id": pid,
            "quick_cmd": f"bin/check {pid} --tier quick",
            "thorough_cmd": f"bin/check {pid} --tier thorough",
            "evidence_file": f"/verif/evidence/{pid}.json",
            "replay_cmd_template": "bin/check --replay {path}",
            "engine": "kani-cbmc" + ("+mir-smt" if pid in ("C05", "C10", "C20") else ""),
            "level_claimed": {"category": "model_checking", "text": text, "design_ref": ref},
            "level_note": note,
            "technique": "solver-based bounded model checking of the real code (Kani 0.68 -> CBMC 6.11 -> CaDiCaL SAT) with in-crate harnesses over kani::any() inputs; counterexamples replayed natively by concrete playback" + ("; plus MIR -> SMT-LIB2 (z3 and cvc5) over-approximate encoding of every arithmetic panic site, candidates replayed through the jaq binary" if pid in ("C05", "C20") else "") + ("; plus symbolic execution of the MIR of bytes_splice with library contracts over SMT arrays (z3 and cvc5)" if pid == "C10" else ""),
        })
    m = {
        "version": 1,
        "setup_cmd": "bin/setup",
        "hooks": {
            "guard": "cfg(kani)",
            "enable": "none needed in /repo: bin/check copies /repo's working tree to a scratch overlay and appends `#[cfg(kani)] #[path=...] mod verif_*;` lines there; `cargo kani` sets cfg(kani)",
            "baseline_off_cmd": "cd /repo && cargo test --workspace --no-fail-fast --offline",
            "source_commits": [],
            "add_only": True,
        },
        "engines": [
            {"name": "kani-cbmc", "path": "bin/check", "serves_properties": sorted(CLAIMED),
             "kind_free_text": "E1: Kani 0.68 / CBMC 6.11 bounded model checking of harness modules mounted into an overlay copy of /repo"},
            {"name": "mir-smt", "path": "lib/e2.py", "serves_properties": ["C05", "C10", "C20"],
             "kind_free_text": "E2: MIR -> SMT-LIB2 obligation checker (z3, cross-checked with cvc5) for integer kernels CBMC cannot decide"},
        ],
        "checks": checks,
        "notes": "Fix commits in /repo: see known_findings.txt (fixed: entries). No hook commits: the overlay adds harness modules outside /repo.",
        "not_applicable": [{"property_id": k, "reason": v} for k, v in sorted(NA.items())],
    }
    claimed = set(CLAIMED)
    for i in range(1, 21):
        pid = "C%02d" % i
        if pid not in claimed and pid not in NA:
            m["not_applicable"].append({"property_id": pid, "reason": "harnesses under construction: not yet decided by the solver on the unchanged tree, so not claimed (see DESIGN.md §4)"})
    m["not_applicable"].sort(key=lambda x: x["property_id"])
    json.dump(m, open(os.path.join(V, "MANIFEST.json"), "w"), indent=1)

if __name__ == "__main__":
    main()
