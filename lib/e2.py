"""E2: MIR -> SMT-LIB2 obligation checker (see DESIGN.md §2.1). Filled in below."""
JOBS = []


def jobs_for(prop, tier):
    return [j for j in JOBS if j["prop"] == prop and (tier == "thorough" or j["tier"] == "quick")]


def run_job(job, overlay, scratch):
    raise NotImplementedError
