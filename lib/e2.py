"""
E2: MIR -> SMT-LIB2 obligation checker (DESIGN.md §2.1).

What it decides.  For every arithmetic panic site rustc leaves in the MIR of jaq's own crates
(`assert(!overflow, "attempt to compute `{} + {}`, which would overflow" ...)`, negation,
division / remainder by zero, shift overflow, and array index bounds), compiled with overflow
checks ON, it asks an SMT solver whether the assertion can fail.  The encoding is regenerated
from /repo's current source on every run:

  cargo +nightly rustc -- -Zunpretty=mir -C overflow-checks=on     (per crate, in the overlay)

and is deliberately an OVER-approximation of the function's behaviour, so that `unsat` is a proof
for every input (no bound on loop iterations or data sizes), while `sat` is only a candidate:

  * integer locals are bit-vectors of their exact width; IntToInt casts extend / truncate
    by signedness; {Add,Sub,Mul}WithOverflow, Neg, Div, Rem, comparisons, bit operations and
    shifts have their machine semantics;
  * every call returns an unconstrained value of its type ("havoc"), except a short list of
    core-library contracts (len() <= isize::MAX, checked_*, unsigned_abs, saturating_sub, min/max);
  * paths: all acyclic paths from the function entry to the assertion are enumerated (back edges
    are cut and everything assigned inside a loop is havoc'd at the loop header); conditions of
    `switchInt` and of earlier assertions along the path are assumed;
  * assumption A1: `usize` PARAMETERS are lengths, positions or nesting depths and therefore
    at most isize::MAX (Rust's allocation limit; the property excepts resource exhaustion);
    assumption A2: a `usize` place whose SOURCE-LEVEL name (MIR `debug` info) is `level` is an
    indentation / nesting depth, also when it is reached through a closure capture.

Verdict per site: proved | candidate.  Candidates are never reported directly:
  - a candidate listed in lib/e2_baseline.json (keyed by crate, function, message and operand
    SHAPE -- no line numbers, no local numbers, no copy/move qualifiers -- with the NUMBER of such
    sites on the unchanged tree; if a key occurs more often than that, all its sites count as new)
    is a site this abstraction cannot decide on the unchanged tree
    (it needs a data-structure invariant); it is reported as "undecided", never as a violation;
  - a NEW candidate in a function that has a replay template is replayed through the `jaq` binary
    built from the overlay in the dev profile (the solver's values, then the type's boundary
    values, are substituted into the template); a panic (exit status 101) makes it a VIOLATION;
  - a new candidate without a reproducing replay is INCONCLUSIVE (exit 2), never success.
Every query is sent to z3 and cvc5; disagreement or an `(error` line is inconclusive.
"""
import json
import os
import re
import shutil
import subprocess
import time

VERIF = os.path.dirname(os.path.dirname(os.path.abspath(__file__)))
BASELINE = os.path.join(VERIF, "lib", "e2_baseline.json")

CRATES = {
    # crate dir -> cargo target selector
    "jaq-core": ["--lib"],
    "jaq-std": ["--lib"],
    "jaq-json": ["--lib"],
    "jaq-fmts": ["--lib"],
    "jaq-all": ["--lib"],
    "jaq": ["--bin", "jaq"],
}

JOBS = [
    {"name": "e2_arith_sites_all_crates", "prop": "C05", "tier": "quick", "crates": list(CRATES)},
    {"name": "e2_bytes_splice_functional", "prop": "C10", "tier": "quick", "crates": ["jaq-json"], "kind": "heap"},
    {"name": "e2_bytes_splice_functional_6", "prop": "C10", "tier": "thorough", "crates": ["jaq-json"], "kind": "heap", "bound": 6},
    {"name": "e2_arith_sites_time", "prop": "C20", "tier": "quick", "crates": ["jaq-std"],
     "only_fn": r"(epoch_to_timestamp|float_to_micros|timestamp_to_epoch|array_to_datetime|datetime_to_array|to_iso8601|gmtime|mktime|strftime|strptime)"},
]

DEPTH_NAMES = ("level",)

INT_W = {"i8": 8, "u8": 8, "i16": 16, "u16": 16, "i32": 32, "u32": 32, "i64": 64, "u64": 64,
         "i128": 128, "u128": 128, "isize": 64, "usize": 64, "char": 32, "bool": 1}


def is_signed(t):
    return t in ("i8", "i16", "i32", "i64", "i128", "isize")


def jobs_for(prop, tier):
    return [j for j in JOBS if j["prop"] == prop and (j["tier"] == "quick" or (tier == "thorough" and j["tier"] == "thorough"))]


# ------------------------------------------------------------------------------------------
# MIR parsing
# ------------------------------------------------------------------------------------------
class Fn:
    def __init__(self, name, header):
        self.name, self.header = name, header
        self.types = {}      # "_N" -> type text
        self.params = []     # ["_1", ...]
        self.blocks = {}     # id -> (stmts [str], term str)
        self.order = []
        self.debug = {}      # source-level name -> place text (from `debug NAME => PLACE;`)


PROMOTED = {}   # "f::promoted[N]" -> (lo const text, hi const text, int type, inclusive) for constant integer ranges


def parse_promoted(text):
    for m in re.finditer(r"^const (\S+::promoted\[\d+\]): [^\n]* = \{\n(.*?)^\}", text, re.M | re.S):
        body = m.group(2)
        r = re.search(r"RangeInclusive::<(\w+)>::new\((const [^,]+), (const [^)]+)\)", body)
        if r and r.group(1) in INT_W:
            PROMOTED[m.group(1)] = (r.group(2), r.group(3), r.group(1), True)
            continue
        r = re.search(r"(?:core|std)::ops::Range::<(\w+)> \{ start: (const [^,]+), end: (const [^}]+) \}", body)
        if r and r.group(1) in INT_W:
            PROMOTED[m.group(1)] = (r.group(2), r.group(3).strip(), r.group(1), False)


def parse_mir(text):
    parse_promoted(text)
    fns = []
    cur = None
    blk = None
    for line in text.split("\n"):
        if line.startswith("fn "):
            m = re.match(r"fn (.*?)\((.*)\) -> (.*) \{$", line)
            if not m:
                cur = None
                continue
            cur = Fn(m.group(1), line)
            # parameters: _N: type, split on top-level commas
            depth, tok, parts = 0, "", []
            for ch in m.group(2):
                if ch in "<([{":
                    depth += 1
                elif ch in ">)]}":
                    depth -= 1
                if ch == "," and depth == 0:
                    parts.append(tok)
                    tok = ""
                else:
                    tok += ch
            if tok.strip():
                parts.append(tok)
            for p in parts:
                pm = re.match(r"\s*(_\d+): (.*)$", p.strip())
                if pm:
                    cur.types[pm.group(1)] = pm.group(2).strip()
                    cur.params.append(pm.group(1))
            fns.append(cur)
            blk = None
            continue
        if cur is None:
            continue
        if line == "}":
            cur = None
            continue
        s = line.strip()
        m = re.match(r"debug (\w+) => (.*);$", s)
        if m and blk is None:
            cur.debug.setdefault(m.group(1), m.group(2).strip())
            continue
        m = re.match(r"let (?:mut )?(_\d+): (.*);$", s)
        if m and blk is None:
            cur.types[m.group(1)] = m.group(2)
            continue
        m = re.match(r"(bb\d+)( \(cleanup\))?: \{$", s)
        if m:
            blk = m.group(1)
            cur.blocks[blk] = {"stmts": [], "term": None, "cleanup": bool(m.group(2))}
            cur.order.append(blk)
            continue
        if blk is not None:
            if s == "}":
                blk = None
                continue
            if not s or s.startswith("//"):
                continue
            b = cur.blocks[blk]
            if is_terminator(s):
                b["term"] = s.rstrip(";")
            else:
                b["stmts"].append(s.rstrip(";"))
    return fns


def is_terminator(s):
    return (s.startswith(("goto ", "switchInt(", "assert(", "return", "unreachable", "resume", "drop(",
                          "falseEdge", "falseUnwind", "terminate", "yield", "tailcall"))
            or re.search(r"-> \[return: bb\d+|-> unwind|-> \[unwind", s) is not None
            or re.search(r"\) -> bb\d+;?$", s) is not None)


def succs(term):
    """-> list of (target bb, kind, data)"""
    if term is None:
        return []
    m = re.match(r"goto -> (bb\d+)", term)
    if m:
        return [(m.group(1), "goto", None)]
    m = re.match(r"switchInt\((.*)\) -> \[(.*)\]$", term)
    if m:
        out, vals = [], []
        for part in m.group(2).split(", "):
            k, v = part.split(": ")
            if k == "otherwise":
                out.append((v, "otherwise", (m.group(1), list(vals))))
            else:
                vals.append(k)
                out.append((v, "case", (m.group(1), k)))
        return out
    m = re.match(r"assert\((.*)\) -> \[success: (bb\d+)", term)
    if m:
        return [(m.group(2), "assert", m.group(1))]
    m = re.match(r"assert\((.*)\) -> (bb\d+)", term)
    if m:
        return [(m.group(2), "assert", m.group(1))]
    m = re.search(r"-> \[return: (bb\d+)", term)
    if m:
        return [(m.group(1), "call", term)]
    m = re.match(r"drop\(.*\) -> \[return: (bb\d+)", term)
    if m:
        return [(m.group(1), "goto", None)]
    m = re.match(r"(?:falseEdge|falseUnwind) -> \[real: (bb\d+)", term)
    if m:
        return [(m.group(1), "goto", None)]
    m = re.search(r"\) -> (bb\d+)$", term)
    if m:
        return [(m.group(1), "call", term)]
    return []


TARGET_MSG = re.compile(r"attempt to|index out of bounds")


# ------------------------------------------------------------------------------------------
# symbolic evaluation of one path
# ------------------------------------------------------------------------------------------
class Enc:
    def __init__(self, fn):
        self.fn = fn
        self.decls = []      # smt declarations
        self.asserts = []    # smt assertions (path condition + contracts)
        self.env = {}        # place -> (smt term, type)
        self.n = 0
        self.havoced = []    # (name, type, origin) for counterexample display
        self.alias = {}      # reference-typed local -> the place it was copied from
        self.ptr = {}        # local holding `&_N` -> "_N"
        self.incl = {}       # local holding a Range / RangeInclusive of integers -> (lo, hi, type, inclusive)
        # locals whose address is taken mutably anywhere in the function: a write through a pointer of
        # unknown target, or a call that receives any `&mut`, may change them
        self.addr_taken = set()
        for b in fn.blocks.values():
            for st in b["stmts"] + [b["term"] or ""]:
                for am in re.finditer(r"&(?:mut|raw mut) \(*\(*(_\d+)", st):
                    self.addr_taken.add(am.group(1))
        # assumption A2: a place whose source-level name is `level` is an indentation / nesting depth
        self.depth_places = {self.norm(p) for n, p in fn.debug.items() if n in DEPTH_NAMES}

    def fresh(self, typ, origin):
        self.n += 1
        name = f"v{self.n}"
        w = INT_W.get(typ)
        if w is None:
            return None
        sort = "Bool" if typ == "bool" else f"(_ BitVec {w})"
        self.decls.append(f"(declare-const {name} {sort})")
        self.havoced.append((name, typ, origin))
        return name

    def place_type(self, place):
        place = place.strip()
        m = re.match(r"^\((.*): ([^:()]+)\)$", place)
        if m and re.match(r"^[\w:<>& ]+$", m.group(2)):
            return m.group(2).strip()
        if re.match(r"^_\d+$", place):
            return self.fn.types.get(place, "?")
        m = re.match(r"^\(\*(_\d+)\)$", place)
        if m:
            t = self.fn.types.get(m.group(1), "?")
            return re.sub(r"^&(?:'\w+ )?(?:mut )?", "", t)
        return "?"

    def norm(self, place):
        """resolve `(*_N)` through recorded reference copies: `_8 = copy ((*_1).2: &usize)` makes
        `(*_8)` the same place as `(*((*_1).2: &usize))`"""
        place = place.strip()
        for _ in range(4):
            m = re.match(r"^\(\*(_\d+)\)$", place)
            if m and m.group(1) in getattr(self, "ptr", {}):
                place = self.ptr[m.group(1)]
            elif m and m.group(1) in getattr(self, "alias", {}):
                place = f"(*{self.alias[m.group(1)]})"
            else:
                break
        return place

    def read(self, place):
        place = self.norm(place)
        if place in self.env:
            return self.env[place]
        typ = self.place_type(place)
        if typ == "?" and place in self.depth_places:
            typ = "usize"
        v = self.fresh(typ, place)
        if v is not None and typ == "usize" and (place in self.fn.params or place in self.depth_places):
            # assumptions A1 / A2
            self.asserts.append(f"(bvule {v} #x7fffffffffffffff)")
        self.env[place] = (v, typ)
        return self.env[place]

    def kill_addr_taken(self):
        for loc in self.addr_taken:
            self.kill(loc)
            self.env.pop(f"discriminant({loc})", None)

    def kill(self, base):
        for k in [k for k in self.env if re.search(r"(?<![\w])" + re.escape(base) + r"(?![\d])", k)]:
            del self.env[k]

    def const(self, text):
        m = re.match(r"^const (-?\d+)_(\w+)$", text)
        if m and m.group(2) in INT_W:
            w = INT_W[m.group(2)]
            v = int(m.group(1)) % (1 << w)
            return (f"(_ bv{v} {w})", m.group(2))
        m = re.match(r"^const (true|false)$", text)
        if m:
            return (m.group(1), "bool")
        m = re.match(r"^const (\w+)::(MIN|MAX)$", text)
        if m and m.group(1) in INT_W:
            t, w = m.group(1), INT_W[m.group(1)]
            if is_signed(t):
                v = (1 << (w - 1)) if m.group(2) == "MIN" else (1 << (w - 1)) - 1
            else:
                v = 0 if m.group(2) == "MIN" else (1 << w) - 1
            return (f"(_ bv{v} {w})", t)
        m = re.match(r"^const '(.)'$", text)
        if m:
            return (f"(_ bv{ord(m.group(1))} 32)", "char")
        return None

    def operand(self, text):
        text = text.strip()
        text = re.sub(r"^(copy|move) ", "", text)
        text = re.sub(r"^no_retag ", "", text)
        if text.startswith("const "):
            c = self.const(text)
            return c if c else (None, "?")
        return self.read(text)

    def as_bool(self, term, typ):
        if term is None:
            return None
        return term if typ == "bool" else None

    def rvalue(self, rhs, lhs_type):
        """-> (term or None, type, extra) ; extra for WithOverflow: (val, ovf)"""
        rhs = rhs.strip()
        m = re.match(r"^(Add|Sub|Mul)WithOverflow\((.*), (.*)\)$", rhs)
        if m:
            a, ta = self.operand(m.group(2))
            b, tb = self.operand(m.group(3))
            t = ta if ta in INT_W else tb
            if a is None or b is None or t not in INT_W:
                return (None, lhs_type, ("?", t))
            w, sg = INT_W[t], is_signed(t)
            op = {"Add": "bvadd", "Sub": "bvsub", "Mul": "bvmul"}[m.group(1)]
            val = f"({op} {a} {b})"
            ext = "sign_extend" if sg else "zero_extend"
            extra = w if m.group(1) == "Mul" else 1
            wa, wb = f"((_ {ext} {extra}) {a})", f"((_ {ext} {extra}) {b})"
            wide = f"({op} {wa} {wb})"
            back = f"((_ {ext} {extra}) {val})"
            ovf = f"(not (= {wide} {back}))"
            return (None, lhs_type, (val, ovf, t))
        m = re.match(r"^(Add|Sub|Mul|BitAnd|BitOr|BitXor|Div|Rem|Shl|Shr|AddUnchecked|SubUnchecked|MulUnchecked|ShlUnchecked|ShrUnchecked)\((.*), (.*)\)$", rhs)
        if m:
            a, ta = self.operand(m.group(2))
            b, tb = self.operand(m.group(3))
            t = ta
            if a is None or b is None or t not in INT_W:
                return (None, lhs_type, None)
            sg = is_signed(t)
            k = m.group(1).replace("Unchecked", "")
            if t == "bool":
                op = {"BitAnd": "and", "BitOr": "or", "BitXor": "xor"}.get(k)
                return (f"({op} {a} {b})", "bool", None) if op else (None, lhs_type, None)
            if k in ("Shl", "Shr"):
                wa, wb = INT_W[t], INT_W.get(tb, 0)
                if wb == 0:
                    return (None, lhs_type, None)
                if wb < wa:
                    b = f"((_ zero_extend {wa - wb}) {b})"
                elif wb > wa:
                    b = f"((_ extract {wa - 1} 0) {b})"
                b = f"(bvurem {b} (_ bv{wa} {wa}))" if False else f"(bvand {b} (_ bv{wa - 1} {wa}))"
                op = "bvshl" if k == "Shl" else ("bvashr" if sg else "bvlshr")
                return (f"({op} {a} {b})", t, None)
            op = {"Add": "bvadd", "Sub": "bvsub", "Mul": "bvmul", "BitAnd": "bvand", "BitOr": "bvor",
                  "BitXor": "bvxor", "Div": "bvsdiv" if sg else "bvudiv", "Rem": "bvsrem" if sg else "bvurem"}[k]
            return (f"({op} {a} {b})", t, None)
        m = re.match(r"^(Lt|Le|Gt|Ge|Eq|Ne)\((.*), (.*)\)$", rhs)
        if m:
            a, ta = self.operand(m.group(2))
            b, tb = self.operand(m.group(3))
            t = ta if ta in INT_W else tb
            if a is None or b is None or t not in INT_W:
                return (None, "bool", None)
            if m.group(1) == "Eq":
                return (f"(= {a} {b})", "bool", None)
            if m.group(1) == "Ne":
                return (f"(not (= {a} {b}))", "bool", None)
            if t == "bool":
                return (None, "bool", None)
            sg = is_signed(t)
            op = {"Lt": "bvslt" if sg else "bvult", "Le": "bvsle" if sg else "bvule",
                  "Gt": "bvsgt" if sg else "bvugt", "Ge": "bvsge" if sg else "bvuge"}[m.group(1)]
            return (f"({op} {a} {b})", "bool", None)
        m = re.match(r"^Not\((.*)\)$", rhs)
        if m:
            a, ta = self.operand(m.group(1))
            if a is None:
                return (None, lhs_type, None)
            return (f"(not {a})", "bool", None) if ta == "bool" else (f"(bvnot {a})", ta, None)
        m = re.match(r"^Neg\((.*)\)$", rhs)
        if m:
            a, ta = self.operand(m.group(1))
            if a is None or ta not in INT_W:
                return (None, lhs_type, None)
            return (f"(bvneg {a})", ta, None)
        m = re.match(r"^(.*) as (\w+) \((\w+)\)$", rhs)
        if m:
            kind, to = m.group(3), m.group(2)
            a, ta = self.operand(m.group(1))
            if kind == "IntToInt" and a is not None and ta in INT_W and to in INT_W:
                if ta == "bool":
                    a = f"(ite {a} #b1 #b0)"
                wa, wt = INT_W[ta], INT_W[to]
                if wt == wa:
                    r = a
                elif wt < wa:
                    r = f"((_ extract {wt - 1} 0) {a})"
                else:
                    ext = "sign_extend" if is_signed(ta) else "zero_extend"
                    r = f"((_ {ext} {wt - wa}) {a})"
                if to == "bool":
                    r = f"(= {r} #b1)"
                return (r, to, None)
            return (None, to if to in INT_W else lhs_type, None)   # float casts etc.: havoc of the target type
        m = re.match(r"^PtrMetadata\((.*)\)$", rhs)
        if m or re.match(r"^Len\(", rhs):
            v = self.fresh("usize", rhs)
            self.asserts.append(f"(bvule {v} #x7fffffffffffffff)")   # a slice length
            return (v, "usize", None)
        m = re.match(r"^discriminant\((.*)\)$", rhs)
        if m:
            key = f"discriminant({m.group(1).strip()})"
            if key not in self.env:
                self.env[key] = (self.fresh(lhs_type if lhs_type in INT_W else "isize", key), lhs_type)
            return (self.env[key][0], lhs_type, None)
        if re.match(r"^(copy |move |const |\(|_\d+$|no_retag )", rhs) and not rhs.startswith("(_") or re.match(r"^\(?_\d+", rhs):
            t, ty = self.operand(rhs)
            return (t, ty if ty != "?" else lhs_type, None)
        return (None, lhs_type, None)

    def assign(self, lhs, rhs):
        lhs = self.norm(lhs.strip())          # a write through `(*_p)` with `_p = &mut _n` is a write to `_n`
        base = re.search(r"_\d+", lhs).group(0)
        if "(*" in lhs:
            self.kill_addr_taken()            # pointer of unknown target: anything address-taken may change
        elif lhs != base:
            # a write to a field: forget everything known about the containing local's places except this one
            keep = self.env.get(lhs)
            self.kill(base)
            if keep is not None:
                self.env[lhs] = keep
        if re.match(r"^_\d+$", lhs):
            self.alias.pop(lhs, None)
            self.ptr.pop(lhs, None)
            self.incl.pop(lhs, None)
            bm = re.match(r"^&(?:mut |raw mut |raw const )?(.+)$", rhs.strip())
            if bm and not bm.group(1).startswith("&"):
                self.ptr[lhs] = self.norm(bm.group(1))
            m = re.match(r"^(?:no_retag )?(?:copy|move) (\(.*\))$", rhs.strip())
            if m and self.fn.types.get(lhs, "").startswith("&"):
                self.alias[lhs] = m.group(1)
        lt = self.place_type(lhs)
        pm = re.match(r"^const (\S+::promoted\[\d+\])$", rhs.strip())
        # a use inside a generic function is spelled `f::<V>::promoted[0]`, its definition `f::promoted[0]`
        pkey = re.sub(r"::<[^<>]*(?:<[^<>]*>[^<>]*)*>", "", pm.group(1)) if pm else None
        if pm and pkey in PROMOTED:
            lo, hi, t, inc = PROMOTED[pkey]
            a, b = self.const(lo), self.const(hi)
            if a and b:
                self.incl[lhs] = (a[0], b[0], t, inc)
            return
        am = re.match(r"^(?:core|std)::ops::Range::<(\w+)> \{ start: (.*), end: (.*) \}$", rhs.strip())
        if am and am.group(1) in INT_W:
            a, _ = self.operand(am.group(2))
            b, _ = self.operand(am.group(3))
            if a is not None and b is not None:
                self.incl[lhs] = (a, b, am.group(1), False)
            return
        term, typ, extra = self.rvalue(rhs, lt)
        self.kill(base) if lhs == base else self.env.pop(lhs, None)
        if extra and len(extra) == 3:
            val, ovf, t = extra
            self.env[f"({lhs}.0: {t})"] = (val, t)
            self.env[f"({lhs}.1: bool)"] = (ovf, "bool")
            return
        if term is not None:
            self.env[lhs] = (term, typ if typ in INT_W else lt)

    def call(self, term):
        m = re.match(r"^(.*?) = (.*?)\((.*)\) -> ", term)
        if not m:
            return
        lhs, callee, args = m.group(1).strip(), m.group(2), m.group(3)
        base = re.search(r"_\d+", lhs)
        if base:
            self.kill(base.group(0)) if lhs == base.group(0) else self.env.pop(lhs, None)
        lt = self.place_type(lhs)
        # &mut arguments may be written by the callee: havoc what they point to
        for am in re.finditer(r"(?:move|copy) (_\d+)", args):
            t = self.fn.types.get(am.group(1), "")
            if t.startswith("&mut") or "&mut" in t[:12]:
                for k in [k for k in self.env if f"(*{am.group(1)})" in k]:
                    del self.env[k]
                tgt = self.ptr.get(am.group(1))
                tb = re.search(r"_\d+", tgt) if tgt else None
                if tb and "(*" not in tgt:
                    self.kill(tb.group(0))    # the callee may write to the local the reference points into
                    self.env.pop(f"discriminant({tb.group(0)})", None)
                else:
                    self.kill_addr_taken()
        self.contract(lhs, lt, callee, args)

    def contract(self, lhs, lt, callee, args):
        argv = split_args(args)
        ops = [self.operand(a) for a in argv] if len(argv) <= 3 else []
        short = re.sub(r"<[^<>]*>", "", callee)
        short = re.sub(r"<[^<>]*>", "", short)
        name = ([x for x in short.split("::") if x] or [""])[-1]
        # integer ranges: `(a..=b).contains(&x)` / `(a..b).contains(&x)`
        if name == "new" and "RangeInclusive" in callee and len(ops) == 2 and all(o[0] is not None and o[1] in INT_W for o in ops):
            self.incl[lhs] = (ops[0][0], ops[1][0], ops[0][1], True)
            return
        if name == "contains" and "Range" in callee and len(argv) == 2:
            r0 = re.sub(r"^(copy|move) ", "", argv[0].strip())
            x0 = re.sub(r"^(copy|move) ", "", argv[1].strip())
            rng = self.incl.get(self.ptr.get(r0, r0))
            xplace = self.ptr.get(x0)
            if rng and xplace:
                x, tx = self.read(xplace)
                lo, hi, t, inc = rng
                if x is not None and tx == t:
                    le = "bvsle" if is_signed(t) else "bvule"
                    lt = "bvslt" if is_signed(t) else "bvult"
                    self.env[lhs] = (f"(and ({le} {lo} {x}) ({le if inc else lt} {x} {hi}))", "bool")
                    return
        if lt == "usize" and (name in ("len", "count", "capacity") or callee.endswith("::len")):
            v = self.fresh("usize", f"{name}()")
            self.asserts.append(f"(bvule {v} #x7fffffffffffffff)")
            self.env[lhs] = (v, "usize")
            return
        intty = re.search(r"impl (\w+)>::", callee)
        t = intty.group(1) if intty and intty.group(1) in INT_W else None
        if t and all(o[0] is not None for o in ops) and ops:
            w, sg = INT_W[t], is_signed(t)
            a = ops[0][0]
            b = ops[1][0] if len(ops) > 1 else None
            if name in ("checked_add", "checked_sub", "checked_mul") and b:
                op = {"checked_add": "bvadd", "checked_sub": "bvsub", "checked_mul": "bvmul"}[name]
                ext = "sign_extend" if sg else "zero_extend"
                extra = w if name == "checked_mul" else 1
                val = f"({op} {a} {b})"
                ok = f"(= ({op} ((_ {ext} {extra}) {a}) ((_ {ext} {extra}) {b})) ((_ {ext} {extra}) {val}))"
                self.option(lhs, ok, val, t)
                return
            if name == "checked_neg":
                ok = f"(not (= {a} (_ bv{1 << (w - 1)} {w})))" if sg else f"(= {a} (_ bv0 {w}))"
                self.option(lhs, ok, f"(bvneg {a})", t)
                return
            if name == "checked_abs" and sg:
                self.option(lhs, f"(not (= {a} (_ bv{1 << (w - 1)} {w})))", f"(ite (bvslt {a} (_ bv0 {w})) (bvneg {a}) {a})", t)
                return
            if name == "unsigned_abs" and sg:
                self.env[lhs] = (f"(ite (bvslt {a} (_ bv0 {w})) (bvneg {a}) {a})", "u" + t[1:])
                return
            if name == "saturating_sub" and b and not sg:
                self.env[lhs] = (f"(ite (bvult {a} {b}) (_ bv0 {w}) (bvsub {a} {b}))", t)
                return
            if name in ("wrapping_add", "wrapping_sub", "wrapping_mul") and b:
                op = {"wrapping_add": "bvadd", "wrapping_sub": "bvsub", "wrapping_mul": "bvmul"}[name]
                self.env[lhs] = (f"({op} {a} {b})", t)
                return
        if name in ("min", "max") and len(ops) == 2 and all(o[0] is not None for o in ops) and ops[0][1] in INT_W and ops[0][1] != "bool":
            t = ops[0][1]
            lt_op = "bvslt" if is_signed(t) else "bvult"
            a, b = ops[0][0], ops[1][0]
            self.env[lhs] = ((f"(ite ({lt_op} {b} {a}) {b} {a})" if name == "min" else f"(ite ({lt_op} {b} {a}) {a} {b})"), t)
            return
        # havoc (already killed); nothing known about the result

    def option(self, lhs, ok, val, t):
        self.env[f"discriminant({lhs})"] = (f"(ite {ok} (_ bv1 64) (_ bv0 64))", "isize")
        self.env[f"(({lhs} as Some).0: {t})"] = (val, t)

    def edge(self, kind, data):
        """assume the condition of a taken edge"""
        if kind == "case":
            t, ty = self.operand(data[0])
            if t is None:
                return
            if ty == "bool":
                self.asserts.append(t if data[1] != "0" else f"(not {t})")
            elif ty in INT_W:
                w = INT_W[ty]
                self.asserts.append(f"(= {t} (_ bv{int(data[1]) % (1 << w)} {w}))")
        elif kind == "otherwise":
            t, ty = self.operand(data[0])
            if t is None:
                return
            for v in data[1]:
                if ty == "bool":
                    self.asserts.append(f"(not {t})" if v != "0" else t)
                elif ty in INT_W:
                    w = INT_W[ty]
                    self.asserts.append(f"(not (= {t} (_ bv{int(v) % (1 << w)} {w})))")
        elif kind == "assert":
            c = self.assert_cond(data)
            if c:
                self.asserts.append(c)

    def assert_cond(self, data):
        cond = split_args(data)[0].strip()
        neg = cond.startswith("!")
        t, ty = self.operand(cond.lstrip("!"))
        if t is None or ty != "bool":
            return None
        return f"(not {t})" if neg else t


def split_args(s):
    depth, tok, parts, instr = 0, "", [], False
    for ch in s:
        if ch == '"':
            instr = not instr
        if not instr:
            if ch in "<([{":
                depth += 1
            elif ch in ">)]}":
                depth -= 1
        if ch == "," and depth == 0 and not instr:
            parts.append(tok.strip())
            tok = ""
        else:
            tok += ch
    if tok.strip():
        parts.append(tok.strip())
    return parts


# ------------------------------------------------------------------------------------------
# per-function analysis
# ------------------------------------------------------------------------------------------
def analyse_fn(fn, solvers, stats, path_cap=4000):
    """-> list of site dicts {fn, block, msg, operands, verdict, model}"""
    blocks = {b: v for b, v in fn.blocks.items() if not v["cleanup"]}
    sites = []
    for b in fn.order:
        if b in blocks and blocks[b]["term"] and blocks[b]["term"].startswith("assert("):
            inner = re.match(r"assert\((.*)\) -> ", blocks[b]["term"]).group(1)
            parts = split_args(inner)
            msg = parts[1].strip('"') if len(parts) > 1 else ""
            if TARGET_MSG.search(msg):
                sites.append((b, parts[0], msg, parts[2:]))
    if not sites:
        return []
    entry = fn.order[0]
    succ = {b: [(t, k, d) for (t, k, d) in succs(v["term"]) if t in blocks] for b, v in blocks.items()}
    # back edges by DFS
    color, back = {}, set()

    def dfs(u):
        color[u] = 1
        for (v, _, _) in succ[u]:
            if color.get(v) == 1:
                back.add((u, v))
            elif v not in color:
                dfs(v)
        color[u] = 2
    import sys
    sys.setrecursionlimit(10000)
    dfs(entry)
    heads = {v for (_, v) in back}
    pred = {b: [] for b in blocks}
    for u in blocks:
        for (v, _, _) in succ[u]:
            pred[v].append(u)
    # natural loop bodies -> locals assigned in them
    loop_assigned = {}
    for (u, h) in back:
        body, stack = {h, u}, [u]
        while stack:
            x = stack.pop()
            if x == h:
                continue
            for p in pred[x]:
                if p not in body:
                    body.add(p)
                    stack.append(p)
        s = loop_assigned.setdefault(h, set())
        for x in body:
            for st in blocks[x]["stmts"]:
                m = re.match(r"^(.*?) = ", st)
                if m:
                    bm = re.search(r"_\d+", m.group(1))
                    if bm:
                        s.add(bm.group(0))
                for am in re.finditer(r"&mut (_\d+)", st):
                    s.add(am.group(1))
            tm = blocks[x]["term"] or ""
            m = re.match(r"^(.*?) = .*\) -> ", tm)
            if m:
                bm = re.search(r"_\d+", m.group(1))
                if bm:
                    s.add(bm.group(0))
            # anything passed by &mut may change as well: conservatively all locals of &mut type targets
    out = []
    for (b, cond, msg, ops) in sites:
        # blocks that can reach b (forward edges only)
        reach, stack = {b}, [b]
        while stack:
            x = stack.pop()
            for p in pred[x]:
                if (p, x) in back:
                    continue
                if p not in reach:
                    reach.add(p)
                    stack.append(p)
        verdict, model, npaths = "proved", None, 0
        # DFS over acyclic paths entry -> b
        paths = []

        def walk(u, path):
            nonlocal npaths
            if npaths > path_cap:
                return
            if u == b:
                npaths += 1
                paths.append(list(path))
                return
            for (v, k, d) in succ[u]:
                if (u, v) in back or v not in reach:
                    continue
                path.append((u, v, k, d))
                walk(v, path)
                path.pop()
        if entry in reach:
            walk(entry, [])
        if npaths > path_cap:
            verdict = "candidate"
            model = {"note": f"more than {path_cap} paths: not enumerated; site treated as undecided"}
        for path in paths:
            if verdict == "candidate":
                break
            e = Enc(fn)
            seq = [p[0] for p in path] + [b]
            for i, blk in enumerate(seq):
                if blk in heads:
                    for loc in loop_assigned.get(blk, ()):
                        e.kill(loc)
                        e.env.pop(f"discriminant({loc})", None)
                    e.kill_addr_taken()
                for st in blocks[blk]["stmts"]:
                    m = re.match(r"^(.*?) = (.*)$", st)
                    if m and not st.startswith(("StorageLive", "StorageDead", "FakeRead", "PlaceMention", "AscribeUserType", "Coverage", "nop", "Retag")):
                        e.assign(m.group(1), m.group(2))
                if blk == b:
                    break
                (_, _, k, d) = path[i]
                if k == "call":
                    e.call(d)
                else:
                    e.edge(k, d)
            c = e.assert_cond(cond + ", x")
            if c is None:
                res, mdl = "sat", {"note": "assert condition not expressible (opaque operand)"}
            else:
                res, mdl = query(e, f"(not {c})", solvers, stats)
            if res != "unsat":
                verdict = "candidate" if res == "sat" else "error"
                model = mdl
                if isinstance(model, dict):
                    model["path"] = seq
        out.append({"fn": fn.name, "block": b, "msg": msg, "operands": [o.strip() for o in ops],
                    "cond": cond, "verdict": verdict, "model": model, "paths": npaths})
    return out


def query(e, goal, solvers, stats):
    smt = "(set-logic ALL)\n(set-option :produce-models true)\n" + "\n".join(e.decls) + "\n" + \
          "\n".join(f"(assert {a})" for a in e.asserts) + f"\n(assert {goal})\n(check-sat)\n"
    names = " ".join(h[0] for h in e.havoced)
    if names:
        smt += f"(get-value ({names}))\n"
    verdicts = []
    model = None
    for (sname, cmd) in solvers:
        t0 = time.time()
        try:
            p = subprocess.run(cmd, input=smt, capture_output=True, text=True, timeout=60)
            outp = p.stdout
        except subprocess.TimeoutExpired:
            outp = "timeout"
        stats["queries"] += 1
        stats["solver_s"] += time.time() - t0
        first = outp.strip().split("\n")[0] if outp.strip() else ""
        if "(error" in outp and first not in ("sat", "unsat"):
            verdicts.append("error")
        elif first == "unsat":
            verdicts.append("unsat")     # the (get-value) after unsat yields an (error line: expected
        elif first == "sat":
            verdicts.append("sat")
            if model is None:
                model = {}
                for (n, t, origin) in e.havoced:
                    m = re.search(r"\(" + n + r" (#x[0-9a-f]+|#b[01]+|true|false|\(_ bv\d+ \d+\))\)", outp)
                    if m:
                        model[origin] = fmt_val(m.group(1), t)
        else:
            verdicts.append("error")
    if all(v == "unsat" for v in verdicts):
        return "unsat", None
    if all(v == "sat" for v in verdicts):
        return "sat", model
    stats["disagreements"] += 1
    return "error", {"note": f"solvers disagree or failed: {verdicts}"}


def fmt_val(s, t):
    if s in ("true", "false"):
        return s
    if s.startswith("#x"):
        v, w = int(s[2:], 16), 4 * (len(s) - 2)
    elif s.startswith("#b"):
        v, w = int(s[2:], 2), len(s) - 2
    else:
        m = re.match(r"\(_ bv(\d+) (\d+)\)", s)
        v, w = int(m.group(1)), int(m.group(2))
    if is_signed(t) and v >= 1 << (w - 1):
        v -= 1 << w
    return v


# ------------------------------------------------------------------------------------------
# replay templates: function-name regex -> list of jq program templates with {v}
# ------------------------------------------------------------------------------------------
REPLAY = [
    (r"^(epoch_to_timestamp|float_to_micros|to_iso8601|gmtime|timestamp_to_epoch)",
     ["{v} | gmtime", "{v} | todate", "{v} | strftime(\"%Y\")", "{v} | gmtime | mktime", "({v} + 0.5) | gmtime", "({v} + 0.5) | todate"]),
    (r"^(array_to_datetime|mktime|strftime|datetime_to_array)",
     ["[{v},0,1,0,0,0] | mktime", "[2000,{v},1,0,0,0] | mktime", "[2000,0,{v},0,0,0] | mktime",
      "[2000,0,1,{v},0,0] | mktime", "[2000,0,1,0,{v},0] | mktime", "[2000,0,1,0,0,{v}] | mktime",
      "[2000,{v},1,0,0,0] | strftime(\"%Y\")", "{v} | gmtime", "{v} | todate | fromdate"]),
    (r"^(implode|explode)", ["[{v}] | implode", "[{v}, 65] | implode", "[65, {v}] | implode | explode"]),
    (r"(round|try_as_i32|try_as_isize)", ["{v} | floor", "{v} | round", "{v} | ceil", "{v}.5 | round"]),
    (r"(skip_take|abs_bound|abs_index|range|index_opt|map_index|map_range|bytes_splice|wrap|as_pos_usize)",
     ["[1,2,3] | .[{v}]", "[1,2,3] | .[{v}:]", "[1,2,3] | .[:{v}]", "\"abc\" | .[{v}:]", "\"abc\" | .[:{v}]",
      "\"aöb\" | .[{v}:1]", "[1,2,3] | .[{v}] = 0", "\"abc\" | .[{v}:] = \"xy\"", "(\"abc\"|tobytes) | .[{v}]",
      "(\"abc\"|tobytes) | .[{v}:]", "[1,2,3] | .[{v}:2] = [9]", "[1,2,3] | has({v})"]),
    (r"(Mul|mul|repeat)", ["\"ab\" * {v}", "{v} * \"ab\""]),
    (r"(limit|skip|range|while_gtz|first|last)", ["[limit({v}; 1,2)]", "[skip({v}; 1,2)]", "[range({v}; {v} + 2)]", "[range(0; 2; {v})] | length"]),
    (r"(length|Num)", ["{v} | length", "{v} | abs", "-({v})", "{v} | tojson"]),
    (r"(indices|bsearch|funs)", ["[1,2,1] | indices({v})", "[1,2,3] | bsearch({v})", "\"abc\" | indices(\"b\") | .[{v}]"]),
]
BOUNDARY = [0, 1, -1, 2, -2, 127, 128, -128, -129, 255, 256, -255, -256, 32767, 32768, -32768, -32769,
            2147483647, 2147483648, -2147483648, -2147483649, 4294967295, 4294967296,
            9007199254740992, 9223372036854, 9223372036855, -9223372036855, 9223372036854775807,
            -9223372036854775807, "(-9223372036854775807 - 1)", "(9223372036854775807 + 1)",
            "(9223372036854775808 - 9223372036854775808)", 1114111, 1114112, 55296]


def replay_candidate(site, jaq_bin, scratch, stats):
    tmpl = None
    for (rx, ts) in REPLAY:
        if re.search(rx, site["fn"]):
            tmpl = ts
            break
    if not tmpl or not jaq_bin:
        return None
    vals = []
    if isinstance(site.get("model"), dict):
        for k, v in site["model"].items():
            if isinstance(v, int) and v not in vals:
                vals.append(v)
    for v in BOUNDARY:
        if v not in vals:
            vals.append(v)
    for v in vals:
        for t in tmpl:
            sv = str(v) if not isinstance(v, int) or v >= 0 else f"({v})"
            if isinstance(v, int) and v == -(1 << 63):
                sv = "(-9223372036854775807 - 1)"
            prog = t.replace("{v}", sv)
            stats["replays"] += 1
            try:
                p = subprocess.run([jaq_bin, "-nc", prog], capture_output=True, text=True, errors="replace", timeout=20)
            except subprocess.TimeoutExpired:
                continue
            if p.returncode == 101 or "panicked at" in p.stderr:
                line = [l for l in p.stderr.split("\n") if "panicked at" in l or "attempt to" in l or "overflow" in l]
                return {"program": prog, "exit": p.returncode, "stderr": " | ".join(line)[:400]}
    return None


# ------------------------------------------------------------------------------------------
# job driver (called from bin/check)
# ------------------------------------------------------------------------------------------
def site_key(crate, s):
    fn = re.sub(r"\{closure@[^}]*\}", "{closure}", s["fn"])
    fn = re.sub(r"<impl at [^>]*>", "<impl>", fn)
    ops = [re.sub(r"^(copy|move) ", "", re.sub(r"_\d+", "_", o)) for o in s["operands"]]
    return f"{crate}|{fn}|{s['msg']}|{','.join(ops)}"


def dump_mir(overlay, crate, scratch):
    os.makedirs(scratch, exist_ok=True)
    out = os.path.join(scratch, f"{crate}.mir")
    env = dict(os.environ)
    env["CARGO_NET_OFFLINE"] = "true"
    env["CARGO_TARGET_DIR"] = os.path.join(scratch, "t", "mir")
    env.pop("RUSTFLAGS", None)
    cmd = ["cargo", "+nightly", "rustc", "--offline"] + CRATES[crate] + \
          ["--", "-Zunpretty=mir", "-C", "debug-assertions=off", "-C", "overflow-checks=on"]
    with open(out, "w") as f, open(out + ".err", "w") as ef:
        p = subprocess.run(cmd, cwd=os.path.join(overlay, crate), stdout=f, stderr=ef, env=env, timeout=1800)
    if p.returncode != 0 or os.path.getsize(out) == 0:
        err = open(out + ".err", errors="replace").read()
        raise RuntimeError("MIR dump failed for %s: %s" % (crate, err[-300:]))
    return open(out, errors="replace").read()


def build_jaq(overlay, scratch):
    env = dict(os.environ)
    env["CARGO_NET_OFFLINE"] = "true"
    env["CARGO_TARGET_DIR"] = os.path.join(scratch, "t", "jaqbin")
    env.pop("RUSTFLAGS", None)
    p = subprocess.run(["cargo", "build", "--offline", "-q", "--bin", "jaq"], cwd=os.path.join(overlay, "jaq"),
                       env=env, capture_output=True, text=True, timeout=1800)
    b = os.path.join(env["CARGO_TARGET_DIR"], "debug", "jaq")
    return b if p.returncode == 0 and os.path.isfile(b) else None


def solvers():
    s = []
    if shutil.which("z3"):
        s.append(("z3", ["z3", "-in", "-T:60"]))
    if shutil.which("cvc5"):
        s.append(("cvc5", ["cvc5", "--lang", "smt2", "--produce-models", "--tlimit=60000"]))
    return s


def selftest(scratch, sv):
    """Validate the translator on rustc's real MIR of functions with known ground truth."""
    src = os.path.join(VERIF, "lib", "e2_selftest", "known.rs")
    out = os.path.join(scratch, "e2_selftest.mir")
    os.makedirs(scratch, exist_ok=True)
    p = subprocess.run(["rustc", "+nightly", "--crate-type", "lib", "--edition", "2021", "-Zunpretty=mir",
                        "-C", "debug-assertions=off", "-C", "overflow-checks=on", src],
                       capture_output=True, text=True, timeout=300, cwd=scratch)
    if p.returncode != 0 or not p.stdout:
        return f"self-test: rustc failed: {p.stderr[-200:]}"
    stats = {"queries": 0, "solver_s": 0.0, "disagreements": 0, "replays": 0}
    seen = {}
    for fn in parse_mir(p.stdout):
        base = fn.name.split("::")[0]
        sites = analyse_fn(fn, sv, stats)
        seen.setdefault(base, []).extend(s["verdict"] for s in sites)
    bad = []
    for name, vs in seen.items():
        if name.startswith("ok_") and any(v != "proved" for v in vs):
            bad.append(f"{name}: expected all sites proved, got {vs}")
        if name.startswith("bad_") and "candidate" not in vs:
            bad.append(f"{name}: expected a candidate, got {vs}")
    want = len(re.findall(r"pub fn bad_", open(src).read()))
    have = len([n for n in seen if n.startswith("bad_") and seen[n]])
    if have < want:
        bad.append(f"only {have} of {want} bad_ self-test functions produced sites")
    if sum(1 for n, vs in seen.items() if n.startswith("ok_") and vs) < 8:
        bad.append("fewer than 8 ok_ self-test functions produced sites")
    return "; ".join(bad) if bad else None


def run_job(job, overlay, scratch):
    if job.get("kind") == "heap":
        import e2_heap
        return e2_heap.run_job(job, overlay, scratch)
    t0 = time.time()
    stats = {"queries": 0, "solver_s": 0.0, "disagreements": 0, "replays": 0}
    r = {"harness": job["name"], "engine": "E2 mir->smt (z3 + cvc5)", "verdict": "inconclusive", "reason": "",
         "failed": [], "checks_total": 0, "checks_passed": 0, "checks_unreachable": 0,
         "functions": [], "bounds": "every arithmetic / index panic site in the MIR of " + ", ".join(job["crates"]) +
         "; all input values (bit-vectors of exact width), any number of loop iterations (loops havoc'd); acyclic paths enumerated up to 4000 per site",
         "assumptions": ["A1: usize parameters are lengths / positions / depths <= isize::MAX",
                         "A2: a usize place whose source-level name is `level` (indentation / nesting depth, possibly a closure capture) is <= isize::MAX",
                         "callees return arbitrary values of their type, except core contracts (len, checked_*, unsigned_abs, saturating_sub, wrapping_*, min, max)",
                         "sites listed in lib/e2_baseline.json are undecided by this abstraction on the unchanged tree (they need a data-structure invariant) and are reported as undecided, not as violations"],
         "asserts": "no arithmetic overflow / division by zero / shift overflow / negation overflow / array index out of bounds can occur at the site"}
    sv = solvers()
    if len(sv) < 2:
        r["reason"] = "need both z3 and cvc5 on PATH"
        return r
    st = selftest(os.path.join(scratch, "e2st-" + job["name"]), sv)
    if st:
        r["reason"] = "translator self-test failed (encoding not trusted): " + st[:400]
        return r
    r["assumptions"].append("translator validated on this run against rustc's MIR of lib/e2_selftest/known.rs (31 functions with known verdicts)")
    try:
        bl = json.load(open(BASELINE))["undecided"] if os.path.isfile(BASELINE) else {}
        # key -> number of undecided sites with that key on the unchanged tree
        baseline = dict(bl) if isinstance(bl, dict) else {k: 10 ** 6 for k in bl}
    except Exception as e:
        r["reason"] = f"baseline unreadable: {e}"
        return r
    allsites, funcs = [], set()
    try:
        for crate in job["crates"]:
            fns = parse_mir(dump_mir(overlay, crate, scratch))
            for fn in fns:
                if job.get("only_fn") and not re.search(job["only_fn"], fn.name):
                    continue
                for s in analyse_fn(fn, sv, stats):
                    s["crate"] = crate
                    s["key"] = site_key(crate, s)
                    allsites.append(s)
                    funcs.add(f"{crate}::{fn.name}"[:120])
    except Exception as e:
        r["reason"] = f"encoding failed: {type(e).__name__}: {e}"[:400]
        return r
    r["functions"] = sorted(funcs)
    r["checks_total"] = len(allsites)
    proved = [s for s in allsites if s["verdict"] == "proved"]
    cands = [s for s in allsites if s["verdict"] == "candidate"]
    errs = [s for s in allsites if s["verdict"] == "error"]
    # a candidate is "known" while its key's count does not exceed the baseline count; if a key shows up
    # more often than on the unchanged tree, ALL sites of that key are treated as new (one of them is)
    counts = {}
    for s in cands:
        counts[s["key"]] = counts.get(s["key"], 0) + 1
    grown = {k for k, n in counts.items() if n > baseline.get(k, 0)}
    known = [s for s in cands if s["key"] not in grown]
    new = [s for s in cands if s["key"] in grown]
    r["checks_passed"] = len(proved)
    r["undecided_baseline"] = len(known)
    r["queries"] = stats["queries"]
    r["solver_s"] = round(stats["solver_s"], 2)
    r["covers_total"] = r["covers_satisfied"] = None
    r["e2_sites"] = [{"site": s["key"], "verdict": ("undecided(baseline)" if s in known else s["verdict"]), "paths": s["paths"]}
                     for s in allsites][:200]
    reproduced, unreproduced = [], []
    if new:
        jaq_bin = build_jaq(overlay, scratch)
        for s in new:
            rep = replay_candidate(s, jaq_bin, scratch, stats)
            (reproduced if rep else unreproduced).append((s, rep))
    r["replays"] = stats["replays"]
    r["wall_s"] = round(time.time() - t0, 1)
    if reproduced:
        r["verdict"] = "violated"
        for (s, rep) in reproduced:
            r["failed"].append({"category": "e2", "description": f"{s['msg']} [{','.join(s['operands'])}]",
                                "function": s["fn"], "file": s["crate"], "line": s["block"],
                                "model": s["model"], "replayed": rep})
        r["replay"] = {"reproduced": True,
                       "detail": "jaq (dev profile, built from the overlay) panics on: " + "; ".join(
                           f"`{rep['program']}` -> {rep['stderr']}" for (_, rep) in reproduced[:3]),
                       "tests": [rep for (_, rep) in reproduced]}
        return r
    if unreproduced or errs:
        r["reason"] = "; ".join(
            [f"new undecided site (solver: may overflow; no concrete replay): {s['key']} model={json.dumps(s['model'])[:160]}" for (s, _) in unreproduced[:4]] +
            [f"solver error at {s['key']}" for s in errs[:3]])
        return r
    if not allsites:
        r["reason"] = "vacuity guard: no arithmetic site found in the MIR (dump format changed?)"
        return r
    if not proved:
        r["reason"] = "vacuity guard: no site proved"
        return r
    r["verdict"] = "held"
    return r


if __name__ == "__main__":
    # stand-alone: python3 lib/e2.py <overlay-or-repo> [--write-baseline]
    import sys
    import tempfile
    root = sys.argv[1] if len(sys.argv) > 1 else "/repo"
    scratch = tempfile.mkdtemp(prefix="jaqverif-e2-")
    try:
        ov = os.path.join(scratch, "repo")
        subprocess.run(["rsync", "-a", "--exclude", "/target", "--exclude", ".git", root + "/", ov + "/"], check=True)
        stats = {"queries": 0, "solver_s": 0.0, "disagreements": 0, "replays": 0}
        und = []
        for crate in CRATES:
            for fn in parse_mir(dump_mir(ov, crate, scratch)):
                for s in analyse_fn(fn, solvers(), stats):
                    k = site_key(crate, s)
                    print(s["verdict"], k, s["paths"], json.dumps(s["model"])[:200] if s["model"] else "")
                    if s["verdict"] != "proved":
                        und.append(k)
        print(stats)
        if "--write-baseline" in sys.argv:
            cnt = {}
            for k in und:
                cnt[k] = cnt.get(k, 0) + 1
            json.dump({"undecided": dict(sorted(cnt.items()))}, open(BASELINE, "w"), indent=1)
    finally:
        shutil.rmtree(scratch, ignore_errors=True)
